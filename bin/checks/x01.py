"""X01 (extra) - osmoutils/partialord: partial orderings and their total linearisation.
Spec: spec/PartialOrd.tla (properties P1..P7 in its header).  Legs:
  mc      exhaustive TLC of the bounded model MCPartialOrd (all properties, per-action coverage)
  replay  TLC-generated call sequences (every sequence to a depth over 3 names; one sequence per
          distinct abstract state over 4-5 names, malformed arguments included) executed on the
          real library; after every call the library's answer to TotalOrdering is compared with
          what the specification says is in force
  trace   seeded random uses of the public API recorded as ndjson and validated line by line by
          TLC against TracePartialOrd (every property as invariant / action property)
Three narrowly defined deviation shapes of the unchanged tree are reported as findings
(docs/findings_x01.json); anything else that deviates is a violation."""
import concurrent.futures, json, os, re, shutil, time
import vlib
from vlib import Infra, Violation, log

PROP = "X01"
TRUST = ("Trusted: TLC evaluator, Json/IOUtils community modules, the harness (it only calls the public API, "
         "recovers panics and rebuilds the object from the accepted calls after a panic), go -overlay.")
MANIFEST = {
    "engine": "tlc+go-harness", "design_ref": "docs/extra_x01.md; spec/PartialOrd.tla header",
    "technique": "TLA+ spec PartialOrd.tla; TLC exhaustive MC; TLC-generated call sequences replayed on the real "
                 "library; recorded random histories trace-validated by TLC",
    "text": "PartialOrd.tla states what a user of osmoutils/partialord relies on (permutation, pairwise constraints "
            "respected, first/last declarations hold, documented override, loud failure, no spurious failure, "
            "determinism) without fixing which ordering is chosen. TLC checks the bounded model exhaustively, every "
            "call sequence to depth 3 over 3 names and one sequence per distinct abstract state over 4-5 names is "
            "executed on the real library, and seeded random histories (1-6 names, careful / careless / app-like "
            "users) are validated line by line.",
    "note": TRUST,
}
BUILD = [("./lite/partialord/", "partialord")]
PAR = int(os.environ.get("VERIF_PAR", "8"))        # parallel processes / TLC workers of this check

MC_CFG = """SPECIFICATION MCSpec
CONSTANTS
  NameSeqs <- %(names)s
  Strangers <- %(strangers)s
  MaxOps = %(ops)d
  MaxDecl = %(decl)d
  DupDecl = %(dup)s
  Ops <- %(opset)s
  Prune = %(prune)s
  Gen = %(gen)s
  GenAll = %(all)s
  Policy = "%(policy)s"
  WellFormed = %(wf)s
  AfterTotal = %(after)s
  Perms <- TabPerms
  BeforePairs <- TabBefore
VIEW View
%(inv)s
CHECK_DEADLOCK FALSE
"""
PROPS = ("INVARIANTS TypeOK Permutation Pairwise FirstHolds LastHolds LoudFailure Sealed SatAgree\n"
         "PROPERTIES PairsStay OverrideExact DeclaredOnce SameAnswer NoHealing")
ACTIONS = ("MCNew", "MCBefore", "MCAfter", "MCSequence", "MCFirst", "MCLast", "MCTotal")
RE_COV = re.compile(r"^<(MC\w+) line \d+, col \d+ to line \d+, col \d+ of module MCPartialOrd[^>]*>: (\d+):(\d+)")
RE_SHAPE = re.compile(r'^<<"KNOWN-SHAPE", "([^"]+)", (\d+)>>')

# shape -> (signature, what); the proposal entries are in docs/findings_x01.json
SHAPES = {
    "redundant-rejected": (
        "pairwise:redeclared-constraint-rejected",
        "After / Before / Sequence panic with 'dag has conflicting edge' when the constraint they declare is already "
        "directly declared (by an earlier call or by FirstElements / LastElements), although nothing contradicts "
        "anything: dag.hasDirectedEdge(v, u) ignores the direction stored in the adjacency map, so addEdge(u, v) "
        "takes an existing edge u -> v for the reverse edge"),
    "first-last-conflict": (
        "total:first-last-conflict-ordering-returned",
        "when FirstElements and LastElements cannot both hold (an element in both declarations of an ordering with "
        "more elements than the two lists cover) nothing fails: the later declaration silently removes edges of the "
        "earlier one (replaceEdge / resetEdges) and TotalOrdering returns an ordering that does not begin (or end) "
        "with the declared elements"),
    "decl-duplicate": (
        "total:duplicate-in-declaration-ordering-returned",
        "FirstElements / LastElements given the same name twice with another name in between (a, b, a) do not fail: "
        "resetEdges wipes what the earlier occurrence set up and TotalOrdering returns an ordering that does not begin "
        "(end) with the declared elements; only the same name twice in a row is rejected (self-edge)"),
}


def mc_cfg(**kw):
    d = dict(strangers="NoStrangers", dup="FALSE", opset="AllOps", prune="FALSE", gen="FALSE", all="FALSE",
             policy="none", wf="FALSE", after="FALSE", inv=PROPS)
    d.update(kw)
    return MC_CFG % d


def report_shapes(ctx, shapes, leg):
    """shapes: {shape: (count, sample)}.  Each is a finding (a violation unless listed as open known finding)."""
    for shape, (n, sample) in sorted(shapes.items()):
        if shape not in SHAPES:
            raise Infra("unknown deviation shape reported: " + shape)
        sig, what = SHAPES[shape]
        ctx.finding(sig, what, {"shape": shape, "leg": leg, "occurrences": n, "sample": sample})


def history_of(lines, ln):
    h = ln - 1
    while h > 0 and '"e":"cfg"' not in lines[h]:
        h -= 1
    res = []
    for x in lines[h:ln]:
        if '"e":"total"' in x and ',"twins"' in x:
            x = x[:x.index(',"twins"')] + "}"
        res.append(x)
    return res


def validate(trace_path, parallel, timeout=1500, heap="3g"):
    """Like vlib.validate_trace, but also returns the KNOWN-SHAPE reports {shape: {trace_line}}."""
    # chunks of about 5000 lines: the P7 memo of the trace spec is searched linearly
    total_lines = sum(1 for _ in open(trace_path))
    chunks = vlib.split_histories(trace_path, max(parallel, (total_lines + 4999) // 5000))
    gen = dist = nlines = 0
    shapes = {}

    def one(ch):
        return ch, vlib.tlc("TracePartialOrd.tla", "TracePartialOrd.cfg", workers=1, timeout=timeout,
                            env={"TRACE_FILE": ch[0]}, heap=heap, tag=PROP + "-trace")

    with concurrent.futures.ThreadPoolExecutor(max_workers=parallel) as ex:
        results = list(ex.map(one, chunks))
    for (p, first, n), r in results:
        if r.error:
            raise Infra("trace validation TracePartialOrd: %s" % r.error)
        gen += r.generated
        dist += r.distinct
        nlines += n
        for pr in r.prints:
            m = RE_SHAPE.match(pr)
            if m:
                shapes.setdefault(m.group(1), set()).add(first + int(m.group(2)) - 1)
        if not r.ok:
            lines = open(p).read().split("\n")
            if r.rejected_line is not None and not r.violated:
                ln = r.rejected_line
                what = "recorded call is not a step of PartialOrd.tla"
            else:
                ln = r.last_l if r.last_l else r.depth
                what = "property %s is false in a recorded state" % r.violated
            if r.failed_checks and not r.violated:
                what += ": " + r.failed_checks[-1]
            detail = {"spec": "TracePartialOrd.tla", "chunk_line": ln, "trace_line": first + ln - 1, "reason": what,
                      "violated": r.violated, "failed_checks": r.failed_checks[-3:],
                      "offending_event": lines[ln - 1] if 0 < ln <= len(lines) else None,
                      "history_prefix": history_of(lines, ln)[-60:], "tlc_output": r.out}
            ev = {}
            try:
                ev = json.loads(lines[ln - 1])
            except Exception:
                pass
            res = ev.get("o") or (ev["r"]["k"] if isinstance(ev.get("r"), dict) else ev.get("r", "?"))
            raise Violation(PROP, what, detail, "trace:%s:%s" % (ev.get("e", "?"), r.violated or res))
    for p, _, _ in chunks:
        try:
            os.remove(p)
        except OSError:
            pass
    return gen, dist, nlines, shapes


def corrupted_copy(lines):
    """A copy of the first history in which an accepted FirstElements(x, y, ..) is followed by an answer whose first
    two elements are swapped (answer and twins alike): must be rejected at exactly that line."""
    # look through all histories for a suitable spot, keep the history it is in
    start = 0
    for i, ln in enumerate(lines):
        if not ln:
            continue
        if '"e":"cfg"' in ln:
            start = i
        if '"e":"first"' in ln and i + 1 < len(lines) and '"e":"total"' in lines[i + 1]:
            ev, nx = json.loads(ln), json.loads(lines[i + 1])
            if ev["o"] == "ok" and len(ev["s"]) >= 2 and nx["r"]["k"] == "ord" and nx["r"]["o"][:2] == ev["s"][:2]:
                o = list(nx["r"]["o"])
                o[0], o[1] = o[1], o[0]
                nx["r"]["o"] = o
                nx["twins"] = [{"k": "ord", "o": o} for _ in nx["twins"]]
                return lines[start:i + 1] + [json.dumps(nx, separators=(",", ":"))]
    return None


def run(ctx):
    q = ctx.quick
    cov = {"samples": []}
    states = trans = 0

    # 1. design: exhaustive model checking of the bounded spec, every action taken
    ctx.leg = "mc"
    # (label, constants, per-action coverage measured)
    mcs = [("3 names + stranger, malformed arguments, 2 calls, calls explored after answers too",
            dict(names="N3dup", strangers="OneStranger", ops=2, decl=2, dup="TRUE", after="TRUE"), True),
           ("4 names, 2 calls, declarations up to 3 names with repetitions",
            dict(names="N4", ops=2, decl=3, dup="TRUE"), True)]
    if not q:
        mcs += [("4 names, 3 calls, declarations up to 2 names", dict(names="N4", ops=3, decl=2), False),
                ("3 names + stranger, malformed arguments, 3 calls, calls explored after answers too",
                 dict(names="N3dup", strangers="OneStranger", ops=3, decl=2, dup="TRUE", after="TRUE"), False),
                ("5 names, 2 calls", dict(names="N5", ops=2, decl=3, wf="TRUE"), False)]
    cov["mc"] = []
    for label, kw, withcov in mcs:
        r = vlib.tlc("MCPartialOrd.tla", "mc.cfg", workers=PAR, timeout=1700, heap="8g", tag=PROP + "-mc", keep=True,
                     extra=["-coverage", "1"] if withcov else None, cfg_text=mc_cfg(**kw))
        vlib.tlc_must_pass(r, "MCPartialOrd " + label)
        taken = {}
        for line in open(r.out, errors="replace"):
            m = RE_COV.match(line)
            if m:
                taken[m.group(1)] = taken.get(m.group(1), 0) + int(m.group(3))
        for a in ACTIONS if withcov else ():
            if taken.get(a, 0) == 0:
                raise Infra("MCPartialOrd %s: action %s was never taken (zero coverage)" % (label, a))
        states += r.distinct
        trans += r.generated
        cov["mc"].append({"model": label, "distinct": r.distinct, "generated": r.generated, "depth": r.depth,
                          "wall_s": round(r.wall, 1), "transitions_per_action": taken})
        log("MC %s: %d distinct / %d generated, depth %d, %.0fs%s" % (label, r.distinct, r.generated, r.depth, r.wall,
                                                                      ", every action taken" if withcov else ""))
        shutil.rmtree(os.path.dirname(r.out), ignore_errors=True)
    cov["mc_states"], cov["mc_transitions"] = states, trans

    binary = vlib.build_test("./lite/partialord/", "partialord")

    # 2. spec -> impl: generated call sequences executed on the real library
    ctx.leg = "replay"
    gens = [("every call sequence of length 3 over 3 names",
             dict(names="N3", ops=3, decl=3, opset="MutOps", prune="TRUE", gen="TRUE", all="TRUE", wf="TRUE", after="TRUE", inv="INVARIANTS Emit EmitNew")),
            ("one sequence per abstract state, 4 names + stranger, malformed arguments, length 2",
             dict(names="N4dup", strangers="OneStranger", ops=2, decl=3, dup="TRUE", opset="MutOps", gen="TRUE", policy="direct", after="TRUE", inv="INVARIANTS Emit EmitNew"))]
    if not q:
        gens += [("every call sequence of length 3 over 4 names (declarations of at most 2)",
                  dict(names="N4", ops=3, decl=2, opset="MutOps", prune="TRUE", gen="TRUE", all="TRUE", wf="TRUE", after="TRUE", inv="INVARIANTS Emit EmitNew")),
                 ("one sequence per abstract state, 4 names, length 4",
                  dict(names="N4", ops=4, decl=3, opset="NoSeqOps", prune="TRUE", gen="TRUE", policy="direct", wf="TRUE", after="TRUE", inv="INVARIANTS Emit EmitNew")),
                 ("one sequence per abstract state, 5 names, length 3",
                  dict(names="N5", ops=3, decl=3, opset="NoSeqOps", prune="TRUE", gen="TRUE", policy="direct", wf="TRUE", after="TRUE", inv="INVARIANTS Emit EmitNew"))]
    tot = {"behaviours": 0, "full": 0, "diverged": 0, "steps": 0, "answers": 0, "rejections": 0, "stopped_by_finding": 0}
    shapes = {}
    cov["replay"] = []
    for label, kw in gens:
        r = vlib.tlc("MCPartialOrd.tla", "gen.cfg", workers=PAR, timeout=2400, heap="10g", tag=PROP + "-gen", keep=True,
                     cfg_text=mc_cfg(**kw))
        vlib.tlc_must_pass(r, "Gen " + label)
        d = os.path.dirname(r.out)
        gen = os.path.join(d, "gen.jsonl")
        n = vlib.extract_gen(r.out, gen)
        if n == 0:
            raise Infra("generator produced no behaviours: " + label)
        nsh = min(PAR, 8)

        def shard(i):
            vlib.run_test(binary, "TestReplay", {"VERIF_IN": gen, "VERIF_OUT": gen + ".result%d" % i,
                                                 "VERIF_SHARD": "%d/%d" % (i, nsh)}, timeout=2400)
            return json.load(open(gen + ".result%d" % i))
        with concurrent.futures.ThreadPoolExecutor(max_workers=nsh) as ex:
            parts = list(ex.map(shard, range(nsh)))
        res = {k: sum(p[k] for p in parts) for k in tot}
        mm = [m for p in parts for m in (p.get("mismatches") or [])]
        for p in parts:
            for s, c in (p.get("shapes") or {}).items():
                old = shapes.get(s, (0, None))
                smp = old[1] or next((x for x in p.get("shape_samples", []) if x["shape"] == s), None)
                if smp and "behaviour" in smp and "names" not in smp:
                    beh = json.loads(open(gen).read().split("\n")[smp["behaviour"]])
                    smp = dict(smp, names=beh["names"], calls=[{k: st[k] for k in ("op", "a", "b", "s", "o")} for st in beh["steps"][:smp["step"] + 1]])
                shapes[s] = (old[0] + c, smp)
        for k in tot:
            tot[k] += res[k]
        if not cov["samples"]:
            cov["samples"].append({"spec_behaviour": json.loads(open(gen).readline())})
        cov["replay"].append(dict(res, model=label, tlc_distinct=r.distinct, tlc_wall_s=round(r.wall, 1)))
        log("replayed %d spec behaviours (%s): %d followed to the end, %d left at a choice the specification leaves open, "
            "%d stopped at a classified deviation, %d answers compared, %d mismatches"
            % (res["behaviours"], label, res["full"], res["diverged"], res["stopped_by_finding"], res["answers"], len(mm)))
        if mm:
            m = mm[0]
            beh = json.loads(open(gen).read().split("\n")[m["behaviour"]])
            calls = [{k: st[k] for k in ("op", "a", "b", "s", "o")} for st in beh["steps"][:max(m["step"], 0) + 1]]
            raise Violation(PROP, "real library deviates from the specification on a generated behaviour: %s (want %s, got %s)"
                            % (m["what"], json.dumps(m["want"])[:300], json.dumps(m["got"])[:300]),
                            {"mismatch": m, "names": beh["names"], "calls": calls}, "replay:" + m["what"][:80])
        if res["full"] * 10 < res["behaviours"]:
            raise Infra("fewer than 10%% of the generated behaviours could be followed to the end (%s)" % label)
        states += r.distinct
        trans += r.generated
        shutil.rmtree(d, ignore_errors=True)
    if tot["rejections"] == 0 or tot["answers"] == 0:
        raise Infra("replay exercised no rejected call / no answer")

    # 3. impl -> spec: recorded random histories validated line by line
    ctx.leg = "trace"
    nh, nc = (1200, 12) if q else (10000, 14)
    ctx.params = {"histories": nh, "calls": nc}
    d = vlib.scratch(PROP + "-rec")
    trace = os.path.join(d, "partialord.ndjson")
    vlib.run_test(binary, "TestRecord", {"VERIF_OUT": trace, "VERIF_SEED": ctx.seed, "VERIF_HISTORIES": nh, "VERIF_CALLS": nc})
    lines = open(trace).read().split("\n")
    kinds = {}
    for i, ln in enumerate(lines):
        if not ln:
            continue
        k = json.loads(ln)
        if i < 4:
            cov["samples"].append({"trace_event": {kk: vv for kk, vv in k.items() if kk != "twins"}})
        key = k["e"] + ":" + (k["o"] if "o" in k else k["r"] if isinstance(k["r"], str) else k["r"]["k"])
        kinds[key] = kinds.get(key, 0) + 1
    for need in ("cfg:ok", "cfg:rej", "before:ok", "before:rej", "after:ok", "after:rej", "seq:ok", "seq:rej",
                 "first:ok", "first:rej", "last:ok", "last:rej", "total:ord", "total:panic", "probe:ok", "probe:fail"):
        if kinds.get(need, 0) == 0:
            raise Infra("recorder produced no %s events: driver is not exercising the property" % need)
    t1 = time.time()
    gen_, dist_, nlines, tshapes = validate(trace, PAR)
    log("validated %d recorded lines of %d histories against TracePartialOrd in %.0fs" % (nlines, nh, time.time() - t1))

    # the validator is not vacuous
    ctx.leg = "corrupted"
    bad = corrupted_copy(lines)
    if not bad:
        raise Infra("no accepted FirstElements with two names in the trace: cannot build the corrupted copy")
    bp = os.path.join(d, "corrupted.ndjson")
    open(bp, "w").write("\n".join(bad) + "\n")
    rb = vlib.tlc("TracePartialOrd.tla", "TracePartialOrd.cfg", workers=1, timeout=600, env={"TRACE_FILE": bp}, heap="2g", tag=PROP + "-bad")
    if rb.error:
        raise Infra("corrupted-trace leg: " + rb.error)
    if rb.ok or rb.rejected_line != len(bad):
        raise Infra("a recorded answer altered to begin with the declared first elements in the wrong order was not "
                    "rejected at its line: the validator is vacuous")
    cov["corrupted_trace_rejected_at_line"] = rb.rejected_line
    log("corrupted copy (answer with the two declared first elements swapped) rejected at its line")

    # classified deviations of the unchanged tree -> findings
    ctx.leg = "trace"
    for s, lns in tshapes.items():
        ln = min(lns)
        old = shapes.get(s, (0, None))
        shapes[s] = (old[0] + len(lns), old[1] or {"trace_line": ln, "offending_event": history_of(lines, ln)[-1],
                                                 "history_prefix": history_of(lines, ln)[-40:]})
    cov.update({"states": states + dist_, "transitions": trans + gen_,
                "traces_validated_against_impl": nh + tot["behaviours"],
                "recorded_histories": nh, "recorded_events": nlines, "event_kinds": kinds,
                "spec_behaviours_replayed": tot["behaviours"], "spec_behaviours_followed_to_the_end": tot["full"],
                "calls_replayed": tot["steps"], "answers_compared": tot["answers"],
                "classified_deviations": {s: c for s, (c, _) in shapes.items()},
                "checker_cmd": "bin/check X01 --tier " + ctx.tier})
    report_shapes(ctx, shapes, "replay+trace")
    cov["known_findings_hit"] = dict(ctx.known_hit)
    vlib.write_evidence(PROP, ctx.tier, ctx.seed, "model_checking", cov, time.time() - ctx.t0,
                        ["TLC evaluator; Json/IOUtils community modules",
                         "the harness uses only the public API of osmoutils/partialord; a call that panics is a rejected call and "
                         "the object is rebuilt from the accepted calls (what a recovered object contains is not specified)",
                         "the satisfaction test of the replayer (ordering vs. constraints listed by TLC) is 30 lines of Go",
                         "which satisfying ordering is chosen, at which of the two allowed points a contradiction is reported, "
                         "and error texts are left open by the specification"])
    shutil.rmtree(d, ignore_errors=True)


def evidence_on_violation(ctx, v):
    vlib.write_evidence(PROP, ctx.tier, ctx.seed, "model_checking",
                        {"evaluations": 1, "distinct_nontrivial": 2, "samples": [v.what],
                         "explanation": "violation found in leg " + str(ctx.leg)}, time.time() - ctx.t0, [], 1)
