"""C14 - tick and price conversions are monotone, in bounds, and mutually inverse.
Spec: spec/TickMath.tla.  Legs: exhaustive TLC over a reduced geometry (MCTickMath:
every tick after every other tick, every spacing, EVERY representable sqrt price);
impl->spec validation by TLC of recorded answers of the real conversion functions
in the real geometry (TraceTickMath: boundary neighbourhoods of all 69 decade
boundaries, multiples of 10^6, strided + random ticks, random sqrt prices, roundings,
out-of-range arguments); a separate small trace of sqrt prices below the accepted
range (all must be refused)."""
import json, os, time
import vlib
from vlib import Infra, Violation, log

PROP = "C14"
MANIFEST = {
    "engine": "tlc+go-harness", "design_ref": "DESIGN.md section 4 (C14)",
    "technique": "TLA+ spec TickMath.tla (closed-form price, ceil-sqrt contract, bucket containment, rounding laws); "
                 "TLC exhaustive MC in a reduced geometry; answers of the real x/concentrated-liquidity/math functions "
                 "trace-validated by TLC in the real geometry with exact BigNum arithmetic",
    "text": "TickMath.tla defines price(t) = 10^d + a*10^(d-6) (d = floor(t/9e6), a = t - 9e6 d) as an exact 36-decimal "
            "integer, the sqrt contract (least r on the 18- resp. 36-decimal grid with r^2 >= price), buckets "
            "[sqrt(t), sqrt(t+1)), rounding to a spacing, and the accepted ranges; one relational action per exported "
            "function. MC (K=0: 9 ticks/decade, decades -3..3, 4/2 decimals): all tick pairs with probe batteries, all "
            "spacings 1..12, and every one of the 3.2e5 representable sqrt prices (3.8e5 states quick; thorough adds "
            "5/3 decimals: 3.8e6 states, and a K=1 geometry with 90 ticks/decade). Traces: for each sampled tick the real "
            "TickToPrice, TickToSqrtPrice(t-1,t,t+1) and CalculateSqrtPriceToTick on sqrt(t), +/-1 ulp, the bucket "
            "midpoint and sqrt(t+1)-1ulp; every tick within +/-50 of all 69 decade boundaries (incl. all range ends and "
            "ticks outside the range), all multiples of 10^6, a strided sweep with seed-chosen offset and random ticks "
            "(5.2e4 ticks / 2.0e5 sqrt-price probes quick, 3.4e6 ticks / 1.3e7 probes thorough), random sqrt prices with code-supplied bucket edges that TLC verifies "
            "by squaring, RoundDownTickToSpacing / SqrtPriceToTickRoundDownSpacing for authorized and random spacings, "
            "out-of-range ticks (range ends, far outside, and on / next to every power-of-ten boundary 24 decades beyond each end), prices (incl. the 36-decimal neighbours of the upper bound) and sqrt prices; constants of types/constants.go are checked against the geometry.",
    "note": "Trusted: TLC evaluator, BigNum.tla and its java override (differential-tested by bin/check setup), "
            "Json/IOUtils community modules, the recorder's logging of arguments and answers. The tick range is sampled "
            "(boundary-complete, interior strided), not swept: the statement quantifies over 6.1e8 ticks.",
}
BUILD = [("./app/tickmath/", "tickmath")]

SIG_BELOW = "s2t:returns-MinCurrentTick-1-just-below-min-sqrt"

MC_CFG = """SPECIFICATION MCSpec
CONSTANTS
  K = %(K)d
  MinDecade <- %(mind)s
  LaunchDecade <- RLaunchDecade
  MaxDecade = %(maxd)d
  PD = %(PD)d
  SD = %(SD)d
  Phase = "%(phase)s"
  MaxSpacing = %(maxsp)d
  Block = %(block)d
INVARIANTS PriceInBounds SqrtInBounds RoundNeverUp TickAnswerInRange Laws OneBucket
PROPERTIES PriceStrictlyIncreasing SqrtNonDecreasing BucketsContiguous
CHECK_DEADLOCK FALSE
"""
GEO_A = dict(K=0, mind="RMinDecade", maxd=3, PD=4, SD=2, maxsp=12, block=100)
GEO_A5 = dict(K=0, mind="RMinDecade", maxd=3, PD=5, SD=3, maxsp=12, block=500)
GEO_B = dict(K=1, mind="RMinDecadeB", maxd=2, PD=4, SD=3, maxsp=95, block=100)


def big(b):
    x = 0
    for limb in reversed(b["m"]):
        x = x * 10000 + limb
    return -x if b["s"] < 0 else x


def record(binary, path, seed, env):
    e = {"VERIF_OUT": path, "VERIF_SEED": seed}
    e.update(env)
    vlib.run_test(binary, "TestRecord", e, timeout=1500)
    return json.load(open(path + ".stats.json"))


def add_counts(total, st):
    for k, v in st.items():
        total[k] = total.get(k, 0) + v


def run(ctx):
    q = ctx.quick
    cov = {"samples": []}

    # 1. design level: exhaustive model checking in reduced geometries
    ctx.leg = "mc"
    runs = [("A", GEO_A, "ticks"), ("A", GEO_A, "sqrt")] if q else \
           [("A", GEO_A, "ticks"), ("A", GEO_A, "sqrt"), ("A5", GEO_A5, "sqrt"), ("B", GEO_B, "ticks"), ("B", GEO_B, "sqrt")]
    states = trans = 0
    cov["mc_runs"] = []
    for name, geo, phase in runs:
        r = vlib.tlc("MCTickMath.tla", "mc.cfg", workers=vlib.NCPU, timeout=1500, heap="8g", tag="C14-mc",
                     cfg_text=MC_CFG % dict(geo, phase=phase))
        vlib.tlc_must_pass(r, "MCTickMath %s/%s" % (name, phase))
        if r.distinct < 1000:
            raise Infra("MCTickMath %s/%s explored only %d states" % (name, phase, r.distinct))
        states += r.distinct
        trans += r.generated
        cov["mc_runs"].append({"geometry": name, "phase": phase, "distinct": r.distinct, "generated": r.generated,
                               "wall_s": round(r.wall, 1)})
        log("MC geometry %s phase %s: %d distinct / %d generated, %.0fs" % (name, phase, r.distinct, r.generated, r.wall))
    cov["mc_states"], cov["mc_transitions"] = states, trans

    binary = vlib.build_test("./app/tickmath/", "tickmath")

    # 2. impl -> spec: recorded answers of the real functions, real geometry
    ctx.leg = "trace"
    d = vlib.scratch("C14-rec")
    seed = int(ctx.seed)
    rounds = [dict(VERIF_TICKS=40000, VERIF_RAND=6000, VERIF_ROUND=4000, VERIF_BOUNDARY=1)] if q else \
             [dict(VERIF_TICKS=500000, VERIF_RAND=(20000 if i == 0 else 2000), VERIF_ROUND=(20000 if i == 0 else 0),
                   VERIF_BOUNDARY=(1 if i == 0 else 0)) for i in range(6)]
    ctx.params = {"rounds": rounds}
    counts = {}
    nlines = gen_ = dist_ = 0
    for i, env in enumerate(rounds):
        trace = os.path.join(d, "tickmath-%d.ndjson" % i)
        t0 = time.time()
        st = record(binary, trace, seed * 1000 + i, env)
        add_counts(counts, st)
        t1 = time.time()
        if i == 0:
            with open(trace) as f:
                for k, ln in enumerate(f):
                    if k in (0, 60, 3400):
                        cov["samples"].append({"trace_event": json.loads(ln)})
                    if k > 3400:
                        break
        g, di, n = vlib.validate_trace(PROP, "TraceTickMath.tla", "TraceTickMath.cfg", trace,
                                       parallel=(8 if q else 16), timeout=1500, heap="2g")
        gen_ += g
        dist_ += di
        nlines += n
        log("round %d: %d lines recorded in %.0fs, validated against TraceTickMath in %.0fs" % (i, n, t1 - t0, time.time() - t1))
        os.remove(trace)
    for need in ("tick:ok:swap-reachable", "tick:ok:extended-low", "tick:rejected", "tick:adjacent-pairs",
                 "probe:same-tick", "probe:previous-tick", "probe:rejected", "s2t:ok", "s2t:rejected", "s2t:src:bucket",
                 "rd:ok", "rd:rejected", "rd:moved:negative", "rd:moved:positive", "s2tr:ok", "s2tr:moved",
                 "p2t:ok", "p2t:rejected", "t2p:rejected", "t2s:rejected"):
        if counts.get(need, 0) == 0:
            raise Infra("recorder produced no %s events: driver is not exercising the property" % need)
    if counts.get("probe:other", 0):
        # cannot happen on an accepted trace; guards the bookkeeping
        raise Infra("accepted trace contains probes answered with a far tick")

    # 3. sqrt prices below TickToSqrtPrice(MinCurrentTick): all must be refused
    ctx.leg = "below"
    below = os.path.join(d, "below.ndjson")
    bst = record(binary, below, seed, {"VERIF_MODE": "below"})
    known_hits = 0
    for attempt in range(3):
        try:
            g, di, n = vlib.validate_trace(PROP, "TraceTickMath.tla", "TraceTickMath.cfg", below, parallel=1, heap="2g")
            gen_ += g
            dist_ += di
            nlines += n
            break
        except Violation as v:
            ev = json.loads(v.detail["offending_event"]) if v.detail.get("offending_event") else {}
            cfg = json.loads(open(below).readline())
            shape = (lambda e: e.get("e") == "s2t" and e.get("ok") and e.get("T") == cfg["minCur"] - 1
                     and 0 <= big(e["x"]) < big(cfg["minCurSqrt"]))
            if not (attempt == 0 and shape(ev)):
                raise
            # the statement "out-of-range prices are rejected" is false here; a listed open finding lets
            # the rest of the leg be examined (lines of exactly this shape are set aside, then re-validated)
            x = big(ev["x"])
            ctx.finding(SIG_BELOW,
                        "CalculateSqrtPriceToTick(%s e-36) returns tick %d (below MinCurrentTick %d) without error"
                        % (x, ev["T"], cfg["minCur"]),
                        dict(v.detail, reproduce="math.CalculateSqrtPriceToTick(osmomath.NewBigDecFromBigIntWithPrec(%d, 36))" % x))
            keep = []
            for ln in open(below):
                if shape(json.loads(ln)):
                    known_hits += 1
                else:
                    keep.append(ln)
            open(below, "w").write("".join(keep))
    else:
        raise Infra("below-range leg did not converge")
    if bst.get("s2t:rejected", 0) == 0:
        raise Infra("below-range leg contains no refusals")
    add_counts(counts, {"below:" + k: v for k, v in bst.items() if k.startswith("s2t")})
    if known_hits:
        counts["below:known-finding-lines"] = known_hits
    log("below-range leg: %d sqrt prices, %d refused, %d of the known-finding shape"
        % (bst["lines"] - 1, bst.get("s2t:rejected", 0), known_hits))

    log("validated %d recorded lines (%d tick batteries, %d sqrt-price probes) against TraceTickMath"
        % (nlines, counts.get("tick:ok", 0) + counts.get("tick:rejected", 0),
           counts.get("probe:same-tick", 0) + counts.get("probe:previous-tick", 0) + counts.get("probe:rejected", 0)
           + counts.get("s2t:ok", 0) + counts.get("s2t:rejected", 0)))
    cov.update({"states": states + dist_, "transitions": trans + gen_,
                "traces_validated_against_impl": counts.get("histories", 0) + 1,
                "recorded_lines": nlines, "event_kinds": counts,
                "ticks_examined": counts.get("tick:ok", 0) + counts.get("tick:rejected", 0),
                "adjacent_tick_pairs": counts.get("tick:adjacent-pairs", 0),
                "known_findings_hit": dict(ctx.known_hit),
                "checker_cmd": "bin/check C14 --tier " + ctx.tier})
    vlib.write_evidence(PROP, ctx.tier, ctx.seed, "model_checking", cov, time.time() - ctx.t0,
                        ["TLC evaluator; BigNum.tla with its java.math.BigInteger override; Json/IOUtils community modules",
                         "the recorder logs arguments and answers of the exported functions faithfully (it judges nothing)",
                         "bucket edges used for random sqrt prices are the code's own TickToSqrtPrice answers, accepted only after "
                         "TLC verified them by squaring against the closed-form price",
                         "the tick range is sampled: boundary-complete (+/-50 around all 69 decade boundaries and range ends), "
                         "interior strided with a seed-chosen offset"])


def evidence_on_violation(ctx, v):
    vlib.write_evidence(PROP, ctx.tier, ctx.seed, "model_checking",
                        {"evaluations": 1, "distinct_nontrivial": 2, "samples": [v.what],
                         "explanation": "violation found in leg " + str(ctx.leg)}, time.time() - ctx.t0, [], 1)
