"""X02 (extra) - x/downtime-detector: last-downtime tracking over block times.
Spec: spec/Downtime.tla.  Legs: exhaustive TLC on the bounded model (MCDowntime, full documented
ladder, time unit 30 s), spec->impl replay of one behaviour per distinct state of the bounded model
on the real module (state after every step, query battery in the final state), impl->spec
validation of recorded random block-time histories of the real module on a full app
(TraceDowntime, BigNum nanoseconds)."""
import json, os, re, time, concurrent.futures
import vlib
from vlib import Infra, Violation, log

TRUST = ("Trusted: TLC evaluator, Json/IOUtils community modules, BigNum java override (differentially tested by "
         "bin/check setup), harness projection (the module's own getters, shared by both binding directions), go -overlay.")
MANIFEST = {
    "engine": "tlc+go-harness", "design_ref": "docs/extra_x02.md",
    "technique": "TLA+ spec Downtime.tla; TLC exhaustive MC on native integers (unit 30 s); TLC-generated behaviours "
                 "replayed on the real module; recorded block-time histories trace-validated by TLC with BigNum nanoseconds",
    "text": "Downtime.tla models the module as InitGenesis / BeginBlock / GetLast / Recovered / Export over the last block "
            "time and the last downtime per ladder duration, with the block history as ghost. Invariants: every entry is "
            "exactly the time of the latest block whose gap to its predecessor reached the duration (genesis value "
            "otherwise), last block time exact, ladder monotone from a consistent genesis, RecoveredSince answers exactly "
            "(now - last >= recovery) and, over the history, true only if every such downtime is at least that old, "
            "refusals (duration outside the ladder, recovery 0), export lists the state; action properties: updates are "
            "downward closed over the ladder and only to the block time, quiet blocks change nothing, queries and export "
            "are pure. TLC checks them exhaustively on a bounded model (1.6e5 states quick, 2e6 thorough), replays one behaviour per "
            "distinct state (7.6e3 quick) on the real module through AppModule.InitGenesis/ExportGenesis/BeginBlock, the "
            "keeper and the registered gRPC query, and validates random histories (gaps on/around every ladder duration at "
            "nanosecond resolution, boundary recoveries, invalid durations, export/import round trips through JSON) "
            "recorded from a full app line by line.",
    "note": TRUST + " Block times are non-decreasing (BFT time). Negative recovery durations are left open.",
}
BUILD = [("./app/downtime/", "downtime")]

LADDER_S = [30, 60, 120, 180, 240, 300, 600, 1200, 1800, 2400, 3000, 3600, 5400, 7200, 9000,
            10800, 14400, 18000, 21600, 32400, 43200, 64800, 86400, 129600, 172800]

MC_CFG = """SPECIFICATION MCSpec
CONSTANTS
  Ladder <- MCLadder
  Epoch0 = 0
  NZero = 0
  NSub <- ISub
  NLe <- ILe
  Gens = {%(gens)s}
  Deltas = {%(deltas)s}
  MaxB = %(maxb)d
  MaxI = %(maxi)d
  QOn = %(qon)s
  QIdx = {%(qidx)s}
  QRec = {%(qrec)s}
  QDt = {%(qdt)s}
  HistOn = %(hist)s
VIEW View
%(inv)s
CHECK_DEADLOCK FALSE
"""
PROPS = ("INVARIANTS GhostSound LatestGap LastBlockExact Monotone RecoveredExact RecoveredMeansQuiet "
         "NotRecoveredMeansRecent Refusals ExportExact RoundTrip\n"
         "PROPERTIES DownwardClosed QuietBlockNoChange QueriesPure")
BASE_DELTAS = "0, 1, 2, 3, 7, 20, 130, 5760"
QUICK_DELTAS = "0, 1, 2, 7, 20, 130, 5760"
# every ladder duration and the unit below it (unit 30 s)
RUNG_DELTAS = ", ".join(str(x) for x in sorted({s // 30 for s in LADDER_S} | {s // 30 - 1 for s in LADDER_S}))
ACTIONS = ("MCBlock", "MCReimport", "MCGet", "MCRec", "MCExport")


def mc_cfg(deltas, maxb, q=True, hist=False, inv=PROPS, gens="1, 2, 3, 4", maxi=1, qidx="1, 7, 25", qrec="0, 1, 20", qdt="0, 2"):
    return MC_CFG % dict(gens=gens, deltas=deltas, maxb=maxb, maxi=maxi, qon="TRUE" if q else "FALSE",
                         qidx=qidx if q else "", qrec=qrec if q else "", qdt=qdt if q else "",
                         hist="TRUE" if hist else "FALSE", inv=inv)


def big(b):
    v = 0
    for limb in reversed(b["m"]):
        v = v * 10000 + limb
    return v * b["s"]


def trace_stats(trace):
    """Per-kind counts of the recorded events, computed from the logged numbers (non-vacuity)."""
    c = {}

    def inc(k):
        c[k] = c.get(k, 0) + 1
    ladder = [s * 10**9 for s in LADDER_S]
    last = None
    for ln in open(trace):
        e = json.loads(ln)
        k = e["e"]
        inc(k)
        if "st" in e:
            last = [big(x) for x in e["st"]["last"]]
        if k == "block":
            g = big(e["gap"])
            inc("block:gap=ladder" if g in ladder else "block:gap=ladder-1ns" if g + 1 in ladder else
                "block:gap=ladder+1ns" if g - 1 in ladder else "block:gap>48h" if g > ladder[-1] else
                "block:gap<30s" if g < ladder[0] else "block:gap-between")
        elif k == "get":
            inc("get:ok" if e["ok"] else "get:refused")
        elif k == "import":
            inc("import:roundtrip" if e["rt"] else "import:fresh")
        elif k == "cfg":
            inc("cfg:entries=%s" % ("none" if not e["gen"]["ent"] else "all" if len(e["gen"]["ent"]) == 25 else "some"))
        elif k == "rec":
            d, r = e["d"], big(e["r"])
            if not 1 <= d <= 25:
                inc("rec:duration-outside-ladder:" + ("refused" if not e["ok"] else "ANSWERED"))
            elif r == 0:
                inc("rec:recovery-0:" + ("refused" if not e["ok"] else "ANSWERED"))
            elif r < 0:
                inc("rec:recovery<0(open)")
            else:
                inc("rec:" + ("true" if e["ans"] else "false") if e["ok"] else "rec:valid-but-refused")
                diff = big(e["now"]) - last[d - 1]
                if r == diff:
                    inc("rec:boundary(recovery=now-last)")
                elif r == diff + 1:
                    inc("rec:boundary+1ns")
                elif r == diff - 1:
                    inc("rec:boundary-1ns")
    return c


NEED = ("cfg", "block", "export", "import:roundtrip", "import:fresh", "get:ok", "get:refused", "rec:true", "rec:false",
        "rec:duration-outside-ladder:refused", "rec:recovery-0:refused", "rec:boundary(recovery=now-last)",
        "rec:boundary+1ns", "rec:boundary-1ns", "block:gap=ladder", "block:gap=ladder-1ns", "block:gap=ladder+1ns",
        "block:gap>48h", "block:gap<30s", "block:gap-between", "cfg:entries=none", "cfg:entries=some", "cfg:entries=all")


def run(ctx):
    q = ctx.quick
    cov = {"samples": []}
    workers = 4 if q else 8
    # development aid: VERIF_X02_LEGS=trace runs one binding direction alone (to see that each direction
    # catches a mutant by itself); the registered check always runs all three
    legs = os.environ.get("VERIF_X02_LEGS", "mc,replay,trace").split(",")
    # 1. design: exhaustive model checking of the bounded spec
    ctx.leg = "mc"
    mcs = [("base", QUICK_DELTAS, 3, {})] if q else \
          [("base", BASE_DELTAS, 4, {}), ("ladder", RUNG_DELTAS, 2, {"qidx": "1, 2, 12, 13, 24, 25", "qrec": "0, 1, 2, 5760"})]
    if "mc" not in legs:
        mcs = []
    states = trans = 0
    cov["mc"] = {}
    for name, deltas, maxb, kw in mcs:
        r = vlib.tlc("MCDowntime.tla", "mc.cfg", workers=workers, timeout=3000, heap="8g", tag="X02-mc",
                     cfg_text=mc_cfg(deltas, maxb, **kw))
        vlib.tlc_must_pass(r, "MCDowntime " + name)
        states += r.distinct
        trans += r.generated
        cov["mc"][name] = {"distinct": r.distinct, "generated": r.generated, "blocks": maxb, "wall_s": round(r.wall, 1)}
        log("MC %s: %d distinct / %d generated, %d blocks deep, %.0fs" % (name, r.distinct, r.generated, maxb, r.wall))
    # non-vacuity of the model: every action is taken (measured on a sub-model: collecting coverage slows TLC 2.5x)
    r = vlib.tlc("MCDowntime.tla", "cov.cfg", workers=2, timeout=900, heap="4g", tag="X02-cov", keep=True,
                 cfg_text=mc_cfg(QUICK_DELTAS, 2), extra=["-coverage", "1000"])
    vlib.tlc_must_pass(r, "MCDowntime coverage")
    txt = open(r.out, errors="replace").read()
    cov["mc_action_counts"] = {}
    for act in ACTIONS:
        m = re.findall(r"<%s line .*?>: (\d+):(\d+)" % act, txt)
        if not m or all(int(b) == 0 for a, b in m):
            raise Infra("MCDowntime: action %s was never taken (model is vacuous)" % act)
        cov["mc_action_counts"][act] = max(int(b) for a, b in m)
    cov["mc_states"], cov["mc_transitions"] = states, trans

    binary = vlib.build_test("./app/downtime/", "downtime")

    # 2. spec -> impl: one behaviour per distinct state of the bounded model, replayed on the real module
    ctx.leg = "replay"
    gens = [("base", BASE_DELTAS, 3)] if q else [("base", BASE_DELTAS, 4), ("ladder", RUNG_DELTAS, 2)]
    if "replay" not in legs:
        gens = []
    replayed = steps = queries = 0
    kinds = {}
    for name, deltas, maxb in gens:
        r = vlib.tlc("MCDowntime.tla", "gen.cfg", workers=workers, timeout=3000, heap="8g", tag="X02-gen", keep=True,
                     cfg_text=mc_cfg(deltas, maxb, q=False, hist=True, inv="INVARIANTS Emit"))
        vlib.tlc_must_pass(r, "MCDowntime gen " + name)
        d = os.path.dirname(r.out)
        gen = os.path.join(d, "gen.jsonl")
        n = vlib.extract_gen(r.out, gen)
        os.remove(r.out)
        if n == 0:
            raise Infra("generator produced no behaviours")
        nsh = 4

        def shard(i):
            vlib.run_test(binary, "TestReplay", {"VERIF_IN": gen, "VERIF_OUT": gen + ".result%d" % i,
                                                 "VERIF_SHARD": "%d/%d" % (i, nsh)}, timeout=3000)
            return json.load(open(gen + ".result%d" % i))
        with concurrent.futures.ThreadPoolExecutor(max_workers=nsh) as ex:
            parts = list(ex.map(shard, range(nsh)))
        mm = [m for p in parts for m in (p.get("mismatches") or [])]
        replayed += sum(p["behaviours"] for p in parts)
        steps += sum(p["steps"] for p in parts)
        queries += sum(p["queries"] for p in parts)
        for p in parts:
            for k, v in p["kinds"].items():
                kinds[k] = kinds.get(k, 0) + v
        if len(cov["samples"]) < 1:
            with open(gen) as f:
                for ln in f:
                    b = json.loads(ln)
                    if len(b["steps"]) >= 3:
                        b.pop("rec")
                        cov["samples"].append({"spec_behaviour": b})
                        break
        log("replayed %d spec behaviours of %s on the real module: %d mismatches" % (n, name, len(mm)))
        if mm:
            m = mm[0]
            with open(gen) as f:
                beh = [ln for i, ln in enumerate(f) if i == m["behaviour"]][0]
            raise Violation("X02", "real module deviates from the specification on a generated behaviour: %s (want %s, got %s)"
                            % (m["what"], json.dumps(m["want"])[:300], json.dumps(m["got"])[:300]),
                            {"mismatch": m, "behaviour": json.loads(beh)}, "replay:" + re.sub(r"\d+", "N", m["what"]))
        states += r.distinct
        trans += r.generated
    for need in ("init", "block", "reimport"):
        if gens and kinds.get(need, 0) == 0:
            raise Infra("generator produced no %s step" % need)

    if "trace" not in legs:
        return
    # 3. impl -> spec: recorded random histories validated line by line
    ctx.leg = "trace"
    nh, nb = (32, 60) if q else (480, 150)
    ctx.params = {"histories": nh, "blocks": nb}
    d = vlib.scratch("X02-rec")
    trace = os.path.join(d, "downtime.ndjson")
    vlib.run_test(binary, "TestRecord", {"VERIF_OUT": trace, "VERIF_SEED": ctx.seed, "VERIF_HISTORIES": nh, "VERIF_BLOCKS": nb})
    with open(trace) as f:
        for i, ln in enumerate(f):
            if i in (1, 2, 3, 4):
                cov["samples"].append({"trace_event": json.loads(ln)})
            if i > 4:
                break
    ks = trace_stats(trace)
    for need in NEED:
        if ks.get(need, 0) == 0:
            raise Infra("recorder produced no %s events: driver is not exercising the property" % need)
    gen_, dist_, nlines = vlib.validate_trace("X02", "TraceDowntime.tla", "TraceDowntime.cfg", trace,
                                              parallel=4 if q else 16, timeout=3000)
    log("validated %d recorded events of %d histories against TraceDowntime" % (nlines, nh))
    cov.update({"states": states + dist_, "transitions": trans + gen_,
                "traces_validated_against_impl": nh + replayed,
                "recorded_histories": nh, "recorded_events": nlines, "event_kinds": ks,
                "spec_behaviours_replayed": replayed, "steps_replayed": steps, "battery_queries_replayed": queries,
                "replayed_step_kinds": kinds, "checker_cmd": "bin/check X02 --tier " + ctx.tier})
    vlib.write_evidence("X02", ctx.tier, ctx.seed, "model_checking", cov, time.time() - ctx.t0,
                        ["TLC evaluator; Json/IOUtils community modules; BigNum java override",
                         "harness projection of the state through GetLastBlockTime / GetLastDowntimeOfLength (shared by both binding directions)",
                         "InitGenesis of a starting chain runs on an empty module store (the harness empties it first)",
                         "block times are non-decreasing (BFT time); negative recovery durations are left open",
                         "calls are executed like baseapp does: cache context, written on success, panics recovered"])


def evidence_on_violation(ctx, v):
    vlib.write_evidence("X02", ctx.tier, ctx.seed, "model_checking",
                        {"evaluations": 1, "distinct_nontrivial": 2, "samples": [v.what],
                         "explanation": "violation found in leg " + str(ctx.leg)}, time.time() - ctx.t0, [], 1)
