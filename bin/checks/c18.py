"""C18 - minting follows the emission schedule and every minted coin is allocated.
Spec: spec/Mint.tla.  Legs: exhaustive TLC on the bounded model (MCMint, scale 10^2),
spec->impl replay of every complete exact behaviour of a second bounded model on the
real mint keeper, impl->spec validation of recorded random parameter sets x consecutive
real AfterEpochEnd calls on a full app (TraceMint, BigNum at scale 10^18).  Design level, unbounded: Apalache inductive
invariant of the schedule and allocation arithmetic (spec/apa/MintInd.tla; apalache_leg)."""
import json, os, time
import vlib
import checks.apalache as apalache
from vlib import Infra, Violation, log

TRUST = ("Trusted: TLC evaluator, Json/IOUtils community modules, BigNum java override (differentially "
         "tested by bin/check setup), harness projection functions (shared by both binding directions), go -overlay.")
MANIFEST = {
    "engine": "tlc+go-harness", "design_ref": "DESIGN.md section 4 (C18), section 7 item 5",
    "technique": "TLA+ spec Mint.tla; TLC exhaustive MC at scale 10^2; TLC-generated behaviours replayed on the real "
                 "mint keeper; recorded epoch sequences trace-validated by TLC with BigNum; Apalache inductive invariant of the schedule "
                 "and allocation arithmetic over unbounded integers (design level)",
    "text": "Mint.tla models mint.AfterEpochEnd as Skip / EpochEnd / EpochFail over provision, last reduction epoch, "
            "parameters, ledgers (mint account, fee collector, pool-incentives, incentives, community pool, developer "
            "vesting, receivers), reported supply and offset. Invariants: mint account empty, conservation, reported "
            "supply = initial + sum of integer parts of the provisions, reductions exactly at anchor + k*period and "
            "never overdue; action properties: provision changes only by a due reduction, nothing before the start "
            "epoch, per-epoch growth = floor(provision). TLC checks them exhaustively on a bounded model (5.9e5 states "
            "quick, 7e6 thorough); every complete behaviour with exact reductions of a second bounded model is executed "
            "on the real keeper and compared after every epoch; random parameter sets (proportions incl. zeros, any "
            "factor/period/start epoch, 0-16 weighted receivers incl. empty addresses, provisions 1..1e13, three "
            "pool-incentives configurations, funded and underfunded vesting account) x 50-500 consecutive real "
            "AfterEpochEnd calls are validated line by line with every share recomputed in BigNum. Design level, unbounded "
            "parameters: for any period >= 1, start epoch, scale, factor, proportions summing to at most 1 and any number of "
            "epochs, 'last reduction = anchor + (number of reductions) * period, never overdue, never early', mint account empty, "
            "staking + pool + developer + community (the non-negative remainder) = minted so far = growth of the supply, and the "
            "step properties (provision changes only by a due reduction, per-epoch growth = floor(provision), nothing before the "
            "start) are an inductive invariant of the typed sub-model spec/apa/MintInd.tla (provision as an integer at an arbitrary "
            "fixed scale), checked by Apalache (initiation, consecution, implication, two broken variants that must fail); developer "
            "receivers / vesting dust are outside that sub-model and the binding to the Go code remains the TLC trace/replay legs.",
    "note": TRUST + " Transaction atomicity of the epoch hook emulated like osmoutils.ApplyFuncIfNoError (cache context "
            "+ recover). Mint denom set to the base coin unit as on the real chain.",
}
BUILD = [("./app/mint/", "mint")]

SIG = "supply-growth<minted:dev-receiver-truncation"

MC_CFG = """SPECIFICATION MCSpec
CONSTANTS
  NAdd <- IAdd
  NSub <- ISub
  NMul <- IMul
  NLe <- ILe
  NZero = 0
  NOne = 1
  NScale = 100
  Provs = {%(provs)s}
  Starts = {%(starts)s}
  Periods = {2, 3}
  Factors = {50, 67}
  Tenths = {%(tenths)s}
  Pis = {"none", "gauges"}
  PropStep = %(step)d
  MaxEpoch = 8
  Vest0 = %(vest)d
VIEW View
%(inv)s
CHECK_DEADLOCK FALSE
"""
PROPS = ("INVARIANTS MintEmpty Conservation SupplyExact Schedule ScheduleFromStart\n"
         "PROPERTIES ReductionOnlyWhenDue GrowthIsMinted NothingBeforeStart")
ALL_PROVS = ", ".join(str(p * 100) for p in range(10, 21))


def big(b):
    x = 0
    for limb in reversed(b["m"]):
        x = x * 10000 + limb
    return -x if b["s"] < 0 else x


def scan(trace):
    """Counts that describe what the recorder exercised (non-vacuity) - not a verdict."""
    c = {k: 0 for k in ("histories", "epoch_ok", "epoch_failed", "skipped_before_start", "other_identifier",
                        "reductions", "start_epoch_seen", "minted_zero", "dust_epochs", "gauge_funded",
                        "pi_none", "pi_zero", "pi_gauges", "pi_mixed", "no_receivers", "single_receiver", "empty_address",
                        "max_receivers", "max_epochs")}
    conf, prev, n_in = None, None, 0
    worst = None
    for ln in open(trace):
        e = json.loads(ln)
        if e["e"] == "cfg":
            conf, prev, n_in = e, e["st"], 0
            c["histories"] += 1
            c["pi_" + e["pi"]] += 1
            c["no_receivers"] += len(e["recv"]) == 0
            c["single_receiver"] += len(e["recv"]) == 1
            c["empty_address"] += any(r["to"] == 0 for r in e["recv"])
            c["max_receivers"] = max(c["max_receivers"], len(e["recv"]))
            continue
        st = e["st"]
        if e["e"] == "other":
            c["other_identifier"] += 1
        elif not e["ok"]:
            c["epoch_failed"] += 1
            n_in += 1
        elif e["n"] < conf["start"]:
            c["skipped_before_start"] += 1
            n_in += 1
        else:
            n_in += 1
            c["epoch_ok"] += 1
            c["start_epoch_seen"] += e["n"] == conf["start"]
            c["reductions"] += st["lastRed"] == e["n"] and e["n"] != conf["start"]
            minted = big(st["prov"]) // 10 ** 18
            growth = big(st["supply"]) - big(prev["supply"])
            c["minted_zero"] += minted == 0
            c["gauge_funded"] += big(st["bal"]["inc"]) > big(prev["bal"]["inc"])
            if growth < minted:
                c["dust_epochs"] += 1
                if worst is None or minted - growth > worst["short"]:
                    worst = {"history": conf["id"], "epoch": e["n"], "minted": minted, "reported_supply_growth": growth,
                             "short": minted - growth, "receivers": len(conf["recv"]),
                             "vesting_decrease": big(prev["bal"]["vest"]) - big(st["bal"]["vest"])}
        c["max_epochs"] = max(c["max_epochs"], n_in)
        prev = st
    return c, worst


def describe_growth(v):
    """Human-readable account of a SupplyExact / GrowthIsMinted counterexample from the trace lines."""
    try:
        pre = v.detail["history_prefix"]
        cur, prev = json.loads(pre[-1]), json.loads(pre[-2])
        conf = json.loads(pre[0]) if len(pre) < 400 else None
        minted = big(cur["st"]["prov"]) // 10 ** 18
        growth = big(cur["st"]["supply"]) - big(prev["st"]["supply"])
        d = {"epoch": cur["n"], "provision_raw_1e18": str(big(cur["st"]["prov"])), "minted": minted,
             "reported_supply_growth": growth, "short": minted - growth,
             "vesting_decrease": big(prev["st"]["bal"]["vest"]) - big(cur["st"]["bal"]["vest"])}
        if conf and conf.get("e") == "cfg":
            d["developer_proportion_raw_1e18"] = str(big(conf["pd"]))
            d["receiver_weights_raw_1e18"] = [str(big(r["w"])) for r in conf["recv"]]
        return d
    except Exception as ex:  # the description is a convenience, never a verdict
        return {"undescribed": str(ex)}


def apalache_leg(ctx, cov):
    """Design level, UNBOUNDED (any period >= 1, start epoch, scale, factor, proportions, number of epochs): IndInv of
    spec/apa/MintInd.tla is inductive and implies the schedule / allocation part of C18.  Never a verdict about the code:
    unexpected outcomes are Infra."""
    if apalache.skipped():
        log("VERIF_NO_APALACHE: unbounded design-level leg skipped")
        cov["apalache"] = {"skipped": "VERIF_NO_APALACHE"}
        return
    ctx.leg = "apalache"
    legs = apalache.standard_legs(broken=[
        ("NextBrokenEarly", "IndInv", "reduction applied when n >= lastRed + period - 1 (one epoch early): Schedule must break"),
        ("NextBrokenDust", "IndInv", "community pool gets floor(minted * pc) instead of the remainder: MintEmpty must break")])
    cov.update(apalache.run("C18", "MintInd.tla", legs))


def run(ctx):
    q = ctx.quick
    cov = {"samples": []}
    # 0. design, unbounded parameters: inductive invariant of the schedule / allocation arithmetic (Apalache)
    apalache_leg(ctx, cov)
    # 1. design: exhaustive model checking of the bounded spec
    ctx.leg = "mc"
    if q:
        mcs = [dict(provs="1000, 1300, 1700, 2000", starts="0, 1, 3", tenths="3, 5", step=1, vest=1000)]
    else:
        mcs = [dict(provs=ALL_PROVS, starts="0, 1, 3", tenths="1, 2, 3, 4, 5, 6, 7, 8, 9", step=1, vest=1000),
               dict(provs="1000, 1500, 2000", starts="0, 2", tenths="3, 5", step=1, vest=12)]  # vesting runs dry
    states = trans = 0
    for m in mcs:
        r = vlib.tlc("MCMint.tla", "mc.cfg", workers=vlib.NCPU, timeout=2400, heap="24g", tag="C18-mc",
                     cfg_text=MC_CFG % dict(m, inv=PROPS))
        vlib.tlc_must_pass(r, "MCMint")
        states += r.distinct
        trans += r.generated
        log("MC (vest %d): %d distinct / %d generated, depth %d, %.0fs" % (m["vest"], r.distinct, r.generated, r.depth, r.wall))
    cov["mc_states"], cov["mc_transitions"] = states, trans

    binary = vlib.build_test("./app/mint/", "mint")

    # 2. spec -> impl: every complete behaviour with exact reductions, replayed on the real keeper
    ctx.leg = "replay"
    if q:
        gens = [dict(provs="1000, 1200, 1600, 2000", starts="0, 2", tenths="3, 5", step=2, vest=1000)]
    else:
        gens = [dict(provs="1000, 1200, 1300, 1600, 1700, 2000", starts="0, 1, 2", tenths="3, 5, 9", step=1, vest=1000),
                dict(provs="1200, 1600, 2000", starts="0, 2", tenths="3, 5", step=2, vest=12)]
    replayed = rsteps = dust_replay = 0
    kinds_model = {}
    for g in gens:
        r = vlib.tlc("MCMint.tla", "gen.cfg", workers=4, timeout=2400, heap="24g", tag="C18-gen", keep=True,
                     cfg_text=MC_CFG % dict(g, inv="INVARIANTS Emit"))
        vlib.tlc_must_pass(r, "GenMint")
        gen = os.path.join(os.path.dirname(r.out), "gen.jsonl")
        n = vlib.extract_gen(r.out, gen)
        if n == 0:
            raise Infra("generator produced no behaviours")
        with open(gen) as f:
            for i, ln in enumerate(f):
                for s in json.loads(ln)["steps"][1:]:
                    kinds_model[s["kind"]] = kinds_model.get(s["kind"], 0) + 1
                if i == 7 and not cov["samples"]:
                    cov["samples"].append({"spec_behaviour": json.loads(ln)})
        vlib.run_test(binary, "TestReplay", {"VERIF_IN": gen, "VERIF_OUT": gen + ".result"}, timeout=2400)
        res = json.load(open(gen + ".result"))
        mm = res.get("mismatches") or []
        replayed += res["behaviours"]
        rsteps += res["steps"]
        dust_replay += res["dust_epochs"]
        log("replayed %d spec behaviours (%d epochs, %d reductions, %d failed epochs) on the real keeper: %d mismatches, "
            "%d epochs with developer rounding remainder kept in the vesting account (%d behaviours left the model because of it)"
            % (res["behaviours"], res["steps"], res["reductions"], res["fails"], len(mm), res["dust_epochs"],
               res.get("diverged_after_known", 0)))
        if mm:
            m = mm[0]
            beh = open(gen).read().split("\n")[m["behaviour"]]
            raise Violation("C18", "real keeper deviates from the specification on a generated behaviour at step %d: %s "
                            "(want %s, got %s)" % (m["step"], m["what"], json.dumps(m["want"])[:200], json.dumps(m["got"])[:200]),
                            {"mismatch": m, "behaviour": json.loads(beh)}, "replay:" + m["what"])
        if res["dust_epochs"]:
            ex = res.get("dust_example", {})
            ctx.finding(SIG, "reported supply grows by less than the minted amount: the per-receiver truncation remainder of "
                        "the developer share stays in the developer vesting account (replayed behaviour %s epoch %s: %s "
                        "unit kept)" % (ex.get("behaviour"), ex.get("epoch"), ex.get("kept_in_vesting")),
                        {"leg": "replay", "example": ex, "epochs_affected": res["dust_epochs"]})
        if res["reductions"] == 0:
            raise Infra("replayed behaviours contain no reduction")
        if g["vest"] < 100 and res["fails"] == 0:
            raise Infra("replayed behaviours with a nearly empty vesting account contain no failed epoch")
        states += r.distinct
        trans += r.generated
    for need in ("skip", "end"):
        if kinds_model.get(need, 0) == 0:
            raise Infra("generated behaviours contain no %s step" % need)

    # 3. impl -> spec: recorded random parameter sets x consecutive epochs, validated line by line
    ctx.leg = "trace"
    nh, emin, emax = (24, 50, 120) if q else (240, 50, 500)
    ctx.params = {"histories": nh, "min_epochs": emin, "max_epochs": emax}
    d = vlib.scratch("C18-rec")
    trace = os.path.join(d, "mint.ndjson")
    vlib.run_test(binary, "TestRecord", {"VERIF_OUT": trace, "VERIF_SEED": ctx.seed, "VERIF_HISTORIES": nh,
                                         "VERIF_MIN_EPOCHS": emin, "VERIF_MAX_EPOCHS": emax}, timeout=2400)
    with open(trace) as f:
        for i, ln in enumerate(f):
            if i < 3:
                cov["samples"].append({"trace_event": json.loads(ln)})
    counts, worst = scan(trace)
    for need in ("epoch_ok", "epoch_failed", "skipped_before_start", "other_identifier", "reductions", "start_epoch_seen",
                 "minted_zero", "gauge_funded", "pi_none", "pi_zero", "pi_gauges", "pi_mixed", "no_receivers", "single_receiver",
                 "empty_address"):
        if counts[need] == 0:
            raise Infra("recorder produced no %s: driver is not exercising the property" % need)
    # 3a. everything the property states except the exact growth of the reported supply
    gen_, dist_, nlines = vlib.validate_trace("C18", "TraceMint.tla", "TraceMintKnown.cfg", trace)
    log("validated %d recorded events of %d histories against TraceMint (allocation, schedule, conservation): "
        "%d epochs ok, %d failed, %d before start, %d reductions"
        % (nlines, nh, counts["epoch_ok"], counts["epoch_failed"], counts["skipped_before_start"], counts["reductions"]))
    # 3b. the property as stated: reported supply grows by exactly the minted amount.  After 3a the only
    # way for this to fail is the developer rounding remainder kept in the vesting account.
    try:
        g2, d2, _ = vlib.validate_trace("C18", "TraceMint.tla", "TraceMint.cfg", trace)
        gen_, dist_ = gen_ + g2, dist_ + d2
        log("reported supply grew by exactly the minted amount in every recorded epoch")
    except Violation as v:
        if v.detail.get("violated") not in ("SupplyExact", "GrowthIsMinted"):
            raise
        desc = describe_growth(v)
        ctx.finding(SIG, "reported supply grows by less than the minted amount: the per-receiver truncation remainder of "
                    "the developer share stays in the developer vesting account, which is excluded from the reported "
                    "supply (%s)" % json.dumps(desc),
                    dict(v.detail, leg="trace", description=desc, worst_in_run=worst, epochs_affected=counts["dust_epochs"]))
        for p in [p for p in os.listdir(d) if ".part" in p]:
            os.remove(os.path.join(d, p))
    cov.update({"states": states + dist_, "transitions": trans + gen_,
                "traces_validated_against_impl": nh + replayed,
                "recorded_histories": nh, "recorded_events": nlines, "recorder_counts": counts,
                "spec_behaviours_replayed": replayed, "epochs_replayed": rsteps, "model_step_kinds": kinds_model,
                "known_finding_hits": dict(ctx.known_hit), "known_finding_worst_in_run": worst,
                "known_finding_epochs_replay": dust_replay,
                "checker_cmd": "bin/check C18 --tier " + ctx.tier})
    vlib.write_evidence("C18", ctx.tier, ctx.seed, "model_checking", cov, time.time() - ctx.t0,
                        ["TLC evaluator; Json/IOUtils community modules; BigNum java override",
                         "Apalache + Z3 (non-linear integer arithmetic) for the unbounded design-level leg (a statement about the typed "
                         "sub-model spec/apa/MintInd.tla: receivers, vesting account and pool-incentives hook abstracted; it never replaces a TLC leg)",
                         "harness projection of minter / module balances / community pool / supply (shared by both binding directions)",
                         "the epoch hook runs on a cache context under recover and is written only on success, as osmoutils.ApplyFuncIfNoError does",
                         "pool-incentives' use of its share (AfterDistributeMintedCoin hook) is constrained only by conservation and by the kind of distribution records",
                         "rounding of provision * reduction factor is left open (either neighbour at 10^-18)",
                         "mint denom = base coin unit; developer vesting account funded like genesis (minted + negative supply offset)"])


def evidence_on_violation(ctx, v):
    vlib.write_evidence("C18", ctx.tier, ctx.seed, "model_checking",
                        {"evaluations": 1, "distinct_nontrivial": 2, "samples": [v.what],
                         "explanation": "violation found in leg " + str(ctx.leg)}, time.time() - ctx.t0, [], 1)
