"""C10 - TWAP equals the time-weighted mean of the recorded spot prices.
Spec: spec/Twap.tla (ghost = end-of-block prices in force and their exact integrals; the record /
accumulator / interpolation / pruning mechanism at design level).  Legs: exhaustive TLC
(MCTwap: every interval of every reachable state answered by the mechanism = the ghost definition),
spec->impl replay of TLC-generated behaviours on the real twap keeper with a scripted spot price
source (exact prices 1, 2, 4, error), impl->spec validation of histories recorded from the real
application (balancer, stableswap, concentrated pools; TraceTwap, BigNum exact)."""
import json, os, random, time
import vlib
from vlib import Infra, Violation, log

MANIFEST = {
    "engine": "tlc+go-harness", "design_ref": "DESIGN.md section 4 (C10)",
    "technique": "TLA+ spec Twap.tla (ghost price history with exact integrals vs. record/accumulator/pruning mechanism); TLC exhaustive MC over all intervals; TLC-generated behaviours replayed on the real twap keeper (scripted spot prices); histories recorded from the real app validated by TLC with exact BigNum integrals and integer-power geometric-mean brackets",
    "text": "Twap.tla keeps, per pool and asset pair, the ghost sequence of end-of-block spot prices in force with their exact integrals (sum p dt, sum log2 p dt) and, separately, the mechanism of the code (records with accumulators advanced by the LAST price, interpolation from the record at or before t, ToNow = most recent record advanced to block time, last-error time, bounded pruning that keeps the window and the newest older record). TLC proves on a bounded model (prices {1,2,4}+error, irregular block times, creation at any block, same-block price change, pruning at any block) that for ALL 0<=s<=e<=now inside the retention window the mechanism answers exactly the ghost sums, flags exactly the intervals touching an error, answers point queries with the price in force, and refuses starts before the creation / the oldest kept record; records are prefix sums; pruning keeps window + newest older record. Every maximal behaviour of a second bounded model is executed on the real keeper code (x/twap logic/api/store/strategy/listeners) with a scripted spot price source and records and the four entry points (both quote directions, ToNow when e = now) are compared after every block. Histories recorded from the real app (balancer 2/3 assets, stableswap, concentrated pools created/filled/drained/refilled, swaps, joins, exits, idle blocks, ms-irregular times, real EndBlock, real epoch hook with small keep periods and prune limits 1..200) are validated line by line: ghost built ONLY from the pool-manager spot prices; every stored record = ghost prices and integrals; arithmetic answers within 1 ulp of (I(e)-I(s))/(e-s) and inside [min,max]; geometric answers inside [min,max] of the prices in force (equal to the price when constant), reciprocal in the two quote directions, and - whenever (e-s)/gcd(dt) <= 64 - v^n brackets prod p_i^(k_i) exactly (integer powers, no logarithm) at the stated precision (SigFigRound 10^8 + 2e-17); error intervals flagged and only those; too-old / invalid intervals never answered with a number; answers inside the window identical on a branch that ended the block without the pruning pass.",
    "note": "Trusted: TLC, BigNum java override, Json/IOUtils modules, harness projection, go -overlay. Geometric answers over long intervals with incommensurable block times are checked by bracket/reciprocity/constant-price only (no certified log2/exp2 enclosure is used). twap.NumRecordsToPrunePerBlock (an exported variable) is set per history to 1..200 to reach the bounded-pass logic. Outside the retention window nothing is claimed (mid-pruning holes there produce stale numbers and one observed Exp2 panic).",
}
BUILD = [("./app/twap/", "twap")]

SIG_GEOZERO = "GetGeometricTwap:log-accumulator-difference-zero:returns-0-instead-of-1"
WHAT_GEOZERO = ("the geometric TWAP is 0 (no error) whenever the difference of the geometric accumulators is 0, i.e. when the "
                "time-weighted mean of log2(price) over the interval is 0 - e.g. a pool whose price is exactly 1 (balanced "
                "stableswap / balancer pool); two to that mean is 1")

MC_CFG = """SPECIFICATION MCSpec
CONSTANTS
  NZero = 0
  NAdd <- IAdd
  NSub <- ISub
  NMulT <- IMulT
  NLe <- ILe
  NLog <- ILog
  NoLog = NoLog
  KeepPeriod = %(keep)d
  PruneLimit = %(limit)d
  MaxT = %(maxt)d
  Ticks = {%(ticks)s}
  MaxEpochs = %(eps)d
%(view)s
%(inv)s
CHECK_DEADLOCK FALSE
"""
PROPS = "INVARIANTS AnswersMatchGhost RecordsArePrefixSums PruneKeeps BetweenMinMax"


def big(b):
    x = 0
    for limb in reversed(b["m"]):
        x = x * 10000 + limb
    return x * b["s"]


def scan(trace):
    """Non-vacuity counts of a recorded trace (what the driver produced, not a verdict)."""
    c = {}

    def inc(k, n=1):
        c[k] = c.get(k, 0) + n
    from math import gcd
    zero_example = None
    hist_start = 0
    W = -1
    for ln_no, ln in enumerate(open(trace)):
        e = json.loads(ln)
        if e["e"] == "cfg":
            inc("histories")
            inc("limit:%d" % e["limit"])
            hist_start = ln_no
            W, times, born = -1, [], {}
            continue
        inc("blocks")
        times.append(e["t"])
        if e["epoch"]:
            inc("epochs")
            W = max(W, e["keepT"])
        if not e["ops"]:
            inc("idle_blocks")
        for o in e["ops"]:
            inc("op:%s:%s" % (o["op"], "ok" if o["ok"] else "failed"))
        if e["ndel"] > 0:
            inc("blocks_with_pruned_records")
            inc("records_pruned", e["ndel"])
        if e["pr0"]["on"] and e["pr"]["on"]:
            inc("prune_pass_hit_limit")
        for t in e["tr"]:
            born.setdefault(t["id"], e["t"])
            inc("records_logged", len(t["recs"]))
            if t["sp"]["e0"] or t["sp"]["e1"]:
                inc("track_blocks_with_spot_error")
            if t["cerr"]:
                inc("track_blocks_created_in_error")
        for q, n in zip(e["q"], e["qnp"]):
            if q["r0"] != n["r0"] or q["r1"] != n["r1"]:
                inc("pruning_changed_answer_somewhere")
        inc("answers_with_and_without_pruning", 2 * len(e["qnp"]))
        for q in e["q"]:
            tr = e["tr"][q["tr"] - 1]
            oldest = tr["recs"][0]["t"] if tr["recs"] else 1 << 40
            if q["s"] > q["e"] or q["e"] > e["t"]:
                cls = "invalid"
            elif q["s"] < born[q["tr"]] or q["s"] < oldest:
                cls = "old"
            elif q["s"] < W:
                cls = "outside_window"
            else:
                cls = "inside"
            for r in (q["r0"], q["r1"]):
                inc("q:%s:%s:%s" % (cls, q["k"], r["c"]))
                if cls == "inside" and q["now"]:
                    inc("q:inside:tonow")
                if cls == "inside" and q["s"] == q["e"]:
                    inc("q:inside:point")
                if cls == "inside" and q["k"] == "g" and r["c"] == "ok" and q["s"] < q["e"] and big(r["v"]) == 0:
                    inc("geometric_zero_answers")
                    if zero_example is None:
                        zero_example = {"history_first_line": hist_start + 1, "line": ln_no + 1, "track": q["tr"],
                                        "pool": tr["pool"], "s": q["s"], "e": q["e"], "p0_last_record": str(big(tr["recs"][-1]["p0"]))}
            if cls == "inside" and q["k"] == "g" and q["s"] < q["e"] and q["r0"]["c"] == "ok":
                g = q["e"] - q["s"]
                for x in times:
                    if q["s"] < x < q["e"] and x >= born[q["tr"]]:
                        g = gcd(g, x - q["s"])
                if (q["e"] - q["s"]) // g <= 64:
                    inc("geometric_exact_power_checks", 2)
    return c, zero_example


def run(ctx):
    q = ctx.quick
    cov = {"samples": []}
    rnd = random.Random(int(ctx.seed))

    # 1. design: the mechanism answers every interval like the ghost definition, exhaustively
    ctx.leg = "mc"
    mcs = [dict(keep=2, limit=1, maxt=4, eps=2)] if q else \
          [dict(keep=2, limit=1, maxt=5, eps=2), dict(keep=1, limit=2, maxt=4, eps=2), dict(keep=3, limit=1, maxt=4, eps=1)]
    states = trans = 0
    for b in mcs:
        r = vlib.tlc("MCTwap.tla", "mc.cfg", workers=vlib.NCPU, timeout=3000, heap="6g", tag="C10-mc",
                     cfg_text=MC_CFG % dict(b, ticks="1, 2, 3", view="VIEW View", inv=PROPS))
        vlib.tlc_must_pass(r, "MCTwap %s" % b)
        states += r.distinct
        trans += r.generated
        log("MC %s: %d distinct / %d generated, depth %d, %.0fs" % (b, r.distinct, r.generated, r.depth, r.wall))
    cov["mc_states"], cov["mc_transitions"] = states, trans

    binary = vlib.build_test("./app/twap/", "twap")

    # 2. spec -> impl: maximal behaviours of the bounded model on the real keeper code
    ctx.leg = "replay"
    gens = [(dict(keep=2, limit=1, maxt=3, eps=2), 1500)] if q else \
           [(dict(keep=2, limit=1, maxt=3, eps=2), 9000), (dict(keep=1, limit=2, maxt=3, eps=2), 6000)]
    replayed = rsteps = ranswers = geo_zero_replay = 0
    for b, take in gens:
        r = vlib.tlc("MCTwap.tla", "gen.cfg", workers=min(8, vlib.NCPU), timeout=3000, heap="6g", tag="C10-gen", keep=True,
                     cfg_text=MC_CFG % dict(b, ticks="1, 2, 3", view="", inv="INVARIANTS Emit"))
        vlib.tlc_must_pass(r, "GenTwap %s" % b)
        d = os.path.dirname(r.out)
        allgen = os.path.join(d, "all.jsonl")
        n = vlib.extract_gen(r.out, allgen)
        if n == 0:
            raise Infra("generator produced no behaviours")
        lines = sorted(open(allgen).read().split("\n")[:-1])   # TLC's print order depends on worker scheduling
        pick = sorted(rnd.sample(range(n), min(take, n)))
        gen = os.path.join(d, "gen.jsonl")
        open(gen, "w").write("".join(lines[i] + "\n" for i in pick))
        os.remove(allgen)
        vlib.run_test(binary, "TestReplay", {"VERIF_IN": gen, "VERIF_OUT": gen + ".result"}, timeout=3000)
        res = json.load(open(gen + ".result"))
        mm = res.get("mismatches") or []
        replayed += res["behaviours"]
        rsteps += res["steps"]
        ranswers += res["answers"]
        geo_zero_replay += res["geo_zero"]
        if not cov["samples"]:
            beh = json.loads(lines[pick[0]])
            cov["samples"].append({"spec_behaviour_actions": [[s["a"], s["p0"], s["p1"], s["err"], s["d"]] for s in beh["steps"]]})
        log("replayed %d of %d spec behaviours %s (%d steps, %d answers) on the real keeper: %d mismatches, %d geometric answers 0 for mean log 0"
            % (res["behaviours"], n, b, res["steps"], res["answers"], len(mm), res["geo_zero"]))
        if mm:
            m = mm[0]
            beh = json.loads(lines[pick[m["behaviour"]]])
            raise Violation("C10", "real twap keeper deviates from the specification on a generated behaviour at step %d: %s "
                            "(want %s, got %s)" % (m["step"], m["what"], json.dumps(m["want"])[:200], json.dumps(m["got"])[:200]),
                            {"mismatch": m, "behaviour": {"keep": beh["keep"], "limit": beh["limit"],
                                                          "steps": [{k: s[k] for k in ("a", "p0", "p1", "err", "d", "now")} for s in beh["steps"]]}},
                            "replay:" + m["what"])
        if res["geo_zero"]:
            ctx.finding(SIG_GEOZERO, WHAT_GEOZERO + " (replay: " + res["geo_zero_example"] + ")",
                        {"leg": "replay", "example": res["geo_zero_example"], "answers_affected": res["geo_zero"]})
        states += r.distinct
        trans += r.generated

    # 3. impl -> spec: histories recorded from the real application
    ctx.leg = "trace"
    nh, nb, nq = (24, 40, 5) if q else (240, 48, 6)
    ctx.params = {"histories": nh, "blocks": nb, "queries": nq}
    d = vlib.scratch("C10-rec")
    trace = os.path.join(d, "twap.ndjson")
    vlib.run_test(binary, "TestRecord", {"VERIF_OUT": trace, "VERIF_SEED": ctx.seed, "VERIF_HISTORIES": nh,
                                         "VERIF_BLOCKS": nb, "VERIF_QUERIES": nq}, timeout=3000)
    with open(trace) as f:
        for i, ln in enumerate(f):
            if i == 1:
                ev = json.loads(ln)
                ev["q"], ev["qnp"] = ev["q"][:4], ev["qnp"][:4]
                cov["samples"].append({"trace_event": ev})
    counts, zero_ex = scan(trace)
    need = ["op:create-bal2:ok", "op:create-cl:ok", "op:swap:ok", "op:join-single:ok", "op:exit:ok", "op:clcreate:ok",
            "op:cldrain:ok", "idle_blocks", "epochs", "records_pruned", "prune_pass_hit_limit", "track_blocks_with_spot_error",
            "track_blocks_created_in_error", "answers_with_and_without_pruning", "q:inside:a:ok", "q:inside:g:ok",
            "q:inside:a:flag", "q:old:a:old", "q:invalid:a:sae", "q:invalid:a:fut", "q:inside:tonow", "q:inside:point",
            "q:outside_window:a:ok", "geometric_exact_power_checks"]
    if not q:
        need += ["op:create-stable:ok", "op:create-bal3:ok", "op:join:ok", "op:exit-single:ok", "op:clwithdraw:ok"]
    for k in need:
        if counts.get(k, 0) == 0:
            raise Infra("recorder produced no %s: driver is not exercising the property" % k)
    # 3a. everything the property states, tolerating only the listed shape of the zero geometric answer
    gen_, dist_, nlines = vlib.validate_trace("C10", "TraceTwap.tla", "TraceTwapKnown.cfg", trace, timeout=3000)
    log("validated %d recorded blocks of %d histories against TraceTwap: %d answers inside the window (%d arithmetic ok, %d geometric ok, "
        "%d flagged), %d too old, %d invalid, %d outside the window; %d records, %d pruned; %d exact geometric power checks"
        % (nlines - nh, nh, sum(v for k, v in counts.items() if k.startswith("q:inside:a:") or k.startswith("q:inside:g:")),
           counts.get("q:inside:a:ok", 0), counts.get("q:inside:g:ok", 0), counts.get("q:inside:a:flag", 0) + counts.get("q:inside:g:flag", 0),
           sum(v for k, v in counts.items() if k.startswith("q:old:")), sum(v for k, v in counts.items() if k.startswith("q:invalid:")),
           sum(v for k, v in counts.items() if k.startswith("q:outside_window:")), counts["records_logged"], counts["records_pruned"],
           counts["geometric_exact_power_checks"]))
    # 3b. the property as stated: the first history containing a zero geometric answer is exhibited under the strict cfg
    if zero_ex:
        lines = open(trace).read().split("\n")
        a = zero_ex["history_first_line"] - 1
        bnd = a + 1
        while bnd < len(lines) and lines[bnd] and '"e":"cfg"' not in lines[bnd][:12]:
            bnd += 1
        one = os.path.join(d, "zero.ndjson")
        open(one, "w").write("\n".join(lines[a:bnd]) + "\n")
        try:
            vlib.validate_trace("C10", "TraceTwap.tla", "TraceTwap.cfg", one, parallel=1, timeout=1500)
            raise Infra("a zero geometric answer was logged but the strict trace spec accepted the history")
        except Violation as v:
            if not any("q-geo-zero" in c for c in v.detail.get("failed_checks", [])):
                raise
            ctx.finding(SIG_GEOZERO, WHAT_GEOZERO + " (recorded: pool %s, interval [%s,%s] ms, price %s/1e18; %d such answers in this run)"
                        % (zero_ex["pool"], zero_ex["s"], zero_ex["e"], zero_ex["p0_last_record"], counts["geometric_zero_answers"]),
                        dict(v.detail, leg="trace", example=zero_ex))
            for p in [p for p in os.listdir(d) if ".part" in p]:
                os.remove(os.path.join(d, p))
    cov.update({"states": states + dist_, "transitions": trans + gen_,
                "traces_validated_against_impl": nh + replayed,
                "recorded_histories": nh, "recorded_blocks": nlines - nh, "recorder_counts": counts,
                "spec_behaviours_replayed": replayed, "replay_steps": rsteps, "replay_answers_compared": ranswers,
                "known_finding_hits": dict(ctx.known_hit), "geometric_zero_answers_replay": geo_zero_replay,
                "checker_cmd": "bin/check C10 --tier " + ctx.tier})
    vlib.write_evidence("C10", ctx.tier, ctx.seed, "model_checking", cov, time.time() - ctx.t0,
                        ["TLC evaluator; Json/IOUtils community modules; BigNum java override",
                         "harness projection of spot prices / records / answers (shared by both binding directions)",
                         "ghost price history is built from RouteCalculateSpotPrice read after every block (both directions), truncated to 18 decimals and clamped like the module records them",
                         "geometric tolerance: half a quantum of SigFigRound(.,10^8) + 2e-17 relative + 3 ulp (calibrated: worst 0.9998 of half a quantum); quote=asset1 also 2 ulp / min p0; against recorded p1 another 1e-7 (8 significant figures of the pools' spot prices)",
                         "retention window = times not older than the latest pruning horizon (block time of the epoch hook - RecordHistoryKeepPeriod)",
                         "block boundaries: twap EndBlock called directly, transient changed-pool store emptied like Commit; pruning started through the real EpochHooks().AfterEpochEnd"])


def evidence_on_violation(ctx, v):
    vlib.write_evidence("C10", ctx.tier, ctx.seed, "model_checking",
                        {"evaluations": 1, "distinct_nontrivial": 2, "samples": [v.what],
                         "explanation": "violation found in leg " + str(ctx.leg)}, time.time() - ctx.t0, [], 1)
