"""C01 - concentrated-liquidity pools stay solvent under every operation history.
Spec: spec/CLSolvency.tla (design-level ledger: pool-favouring rounding => solvency, with the
flipped-direction witness) and spec/trace/TraceCLSolvency.tla (every recorded state of a real pool:
everybody can exit in several orders on discarded branches, reward accounts cover claimables,
residual is bounded non-negative dust, ledger conservation)."""
import json, os, time
import vlib, checks.clcommon as clc
from vlib import Infra, Violation, log

MANIFEST = {
    "engine": "tlc+go-harness", "design_ref": "DESIGN.md section 4 (C01)",
    "technique": "TLA+ ledger model CLSolvency.tla model-checked (rounding directions => solvency, flipped direction => counterexample); recorded histories of the real pool with full-exit drains on discarded branches after every operation, validated by TLC (TraceCLSolvency)",
    "text": "Design level: TLC shows on a bounded ledger that rounding up on the way in and down on the way out keeps reserve >= entitlements and lets everybody exit in any order, and that flipping either direction breaks it (witness must fail). Code level: after EVERY operation of random histories on a real pool (2-5 accounts, all spacings/spread factors, prices 1e-11..1e11, 1-unit to draining swaps, incentives with all uptimes, time advances, both sides of the accumulator-scaling migration, dust-sized histories) the harness lets every position collect both reward kinds and withdraw in full on discarded branches in ascending, descending and random order; TLC requires: nobody fails, claimable queries answer, spread-reward account >= sum of claimable spread rewards, incentive account >= claimable incentives + undistributed record remainder, pool-token residual after full exit <= 4 units per executed operation, total of users + pool accounts constant, failed operations change nothing.",
    "note": "Trusted: TLC, BigNum override, harness projection and bank balances as ledger of record. Positions bound by locks are not generated (the statement exempts them). Residual bound calibrated: worst observed 0.63 units/op over 4.5k operations.",
}
BUILD = clc.BUILD

MC_CFG = """SPECIFICATION Spec
CONSTANTS
  Users = {1, 2}
  Vals = {3, 7, 10, 15}
  MaxOwed = %d
  MaxDust = 30
  InUp = %s
  OutDown = %s
INVARIANTS Solvent Drainable
CHECK_DEADLOCK FALSE
"""


def run(ctx):
    q = ctx.quick
    ctx.leg = "mc"
    mo = 40 if q else 70
    r = vlib.tlc("MCCLSolvency.tla", "mc.cfg", workers=vlib.NCPU, timeout=1800, heap="8g", tag="C01-mc",
                 cfg_text=MC_CFG % (mo, "TRUE", "TRUE"))
    vlib.tlc_must_pass(r, "MCCLSolvency")
    log("MC ledger: %d distinct / %d generated states, %.0fs" % (r.distinct, r.generated, r.wall))
    for a, b in (("FALSE", "TRUE"), ("TRUE", "FALSE")):
        w = vlib.tlc("MCCLSolvency.tla", "mc.cfg", workers=4, timeout=600, heap="4g", tag="C01-witness",
                     cfg_text=MC_CFG % (25, a, b))
        if w.error or not w.violated:
            raise Infra("non-vacuity witness: flipping a rounding direction (InUp=%s, OutDown=%s) did not break solvency: %s"
                        % (a, b, w.error))
    log("witness: flipping either rounding direction breaks the ledger invariant (as it must)")
    ctx.leg = "trace"
    runs = [(16, 80, 1, "mixed"), (4, 120, 1, "dust")] if q else [(120, 120, 3, "mixed"), (30, 160, 1, "dust")]
    ctx.params = {"runs": runs}
    states = r.distinct
    trans = r.generated
    allkinds, samples, nhist, nev, ndrains = {}, [], 0, 0, 0
    for nh, nops, de, style in runs:
        trace = clc.record(ctx, "C01", nh, nops, drain_every=de, style=style)
        kinds, smp, n = clc.summarise(trace)
        clc.need(kinds, ["create:ok", "withdraw:ok", "swap:ok", "collectFee:ok", "collectInc:ok", "incentive:ok", "time:ok"])
        for ln in open(trace):
            e = json.loads(ln)
            if e["e"] == "op":
                ndrains += len(e["drain"])
        gen, dist, nlines = vlib.validate_trace("C01", "TraceCLSolvency.tla", "TraceCLSolvency.cfg", trace, timeout=3000)
        for k, v in kinds.items():
            allkinds[k] = allkinds.get(k, 0) + v
        samples = samples or smp
        nhist += nh
        nev += nlines
        states += dist
        trans += gen
    if ndrains == 0:
        raise Infra("no full-exit drains were recorded")
    log("validated %d recorded states (%d full-exit drains) of %d histories" % (nev, ndrains, nhist))
    vlib.write_evidence("C01", ctx.tier, ctx.seed, "model_checking", {
        "states": states, "transitions": trans, "traces_validated_against_impl": nhist,
        "mc_states": r.distinct, "recorded_events": nev, "full_exit_drains": ndrains, "event_kinds": allkinds,
        "samples": samples, "checker_cmd": "bin/check C01 --tier " + ctx.tier}, time.time() - ctx.t0,
        ["TLC; BigNum java override", "bank balances are the ledger of record",
         "drains run on discarded cache contexts, each user action on its own sub-branch",
         "positions under an unexpired lock are exempt by the statement and are not generated"])


def evidence_on_violation(ctx, v):
    vlib.write_evidence("C01", ctx.tier, ctx.seed, "model_checking",
                        {"evaluations": 1, "distinct_nontrivial": 2, "samples": [v.what]}, time.time() - ctx.t0, [], 1)
