"""C05 - router: a multi-hop swap equals the composition of its hops, a split route the sum of its
legs, estimates equal execution, limits hold, failures leave nothing behind.
Spec: spec/Router.tla (pool swap functions uninterpreted).  Legs:
  mc      exhaustive TLC check of the bounded model (integer constant-product pools, every route
          shape <= 3 hops over 3 pools): limits, atomicity, estimates, conservation, composition laws;
          plus the witness that the "each pool at most once" carve-out is not vacuous;
  replay  every behaviour of the generator model (route shape x kind x limit offset x fee / whitelist
          configuration) executed on three real pools (balancer, concentrated, stableswap), verdict
          compared with the model, the execution validated by TraceRouter;
  trace   seeded random histories over 4-6 real pools of all types; every routed message is validated
          by TLC against the composition of single-pool executions observed on discarded branches."""
import json, os, time, concurrent.futures
import vlib
from vlib import Infra, Violation, log

MANIFEST = {
    "engine": "tlc+go-harness", "design_ref": "DESIGN.md section 4 (C05)",
    "technique": "TLA+ spec Router.tla with uninterpreted pool functions; TLC exhaustive MC on toy pools; on recorded executions of the real poolmanager the pool functions are instantiated by lookup in single-pool executions observed on discarded branches and TLC recomputes taker fees, hop chains, exact-out pre-computation, split sums, estimates and limit verdicts (BigNum)",
    "text": "Router.tla fixes what the router adds on top of the pools: per-hop taker fee (pair override or default, none for whitelisted senders; exact-in floor(a(1-f)), exact-out ceil(p/(1-f))), exact-in = Hop_n(..Hop_1(a)) with the minimum on the final output only, exact-out = backward pre-computation on the pre-state + forward execution with per-hop maxima and the maximum on what the sender is charged first, split = legs in sequence with the limit on the sum, estimates = the same chain without threading pool states, failure = no change. MC (integer constant-product pools, all route shapes <= 3 hops over 3 pools, limits at result-1/result/result+1, fees, overrides, whitelist) checks LimitsHold, Atomic, EstimatePure, EstimateExact, Conservation and the composition laws, and exhibits a pool-revisiting route whose estimate differs from its execution. The recorder drives 4-6 real pools (balancer 2-4 assets, stableswap, concentrated) over 5 denoms with joins/exits/position changes/fee and whitelist changes between routed swaps of 1-4 hops (exact-in, exact-out, split routes, pool revisits); before each routed message the same hops are executed one at a time through the single-pool entry points on discarded branches and logged; TLC requires verdict, returned amount, every hop's bank amounts and taker fee, the ledgers and the digest of the whole bank/gamm/poolmanager/concentrated-liquidity/params stores to equal the hop-by-hop composition, failures and estimates to leave the digest unchanged, and every estimate query to equal the executed amount on routes that visit each pool once.",
    "note": "Trusted: TLC, BigNum override, Json/IOUtils modules, the harness projection (store digest, bank balances) and the branch discipline (messages run on a cache context written only on success, as baseapp does - atomicity of a failing message is therefore that of baseapp). Senders hold 10^60 of every denom (insufficient balance is out of scope); the account that puts a pre-computation question to a pool is topped up on its discarded sub-branch. Taker fees used have at most 6 decimals (exact-out fee = ceil of the exact quotient; LegacyDec.Quo rounding at 10^-18 cannot matter).",
}
BUILD = [("./app/router/", "router")]

SIGS = {
    "maxin": ("exact-out:max-in-checked-before-taker-fee",
              "MsgSwapExactAmountOut succeeds although the sender is charged more than token_in_max_amount: the maximum is "
              "compared with the first pool's input before the taker fee is added"),
    "wlpre": ("exact-out:whitelisted-sender:required-inputs-precomputed-with-nominal-taker-fee",
              "multi-hop exact-out swap of a whitelisted (fee-exempt) sender is not the composition of its hops: the required "
              "inputs are pre-computed with the pair's taker fee that the sender is never charged, so the sender pays more of the "
              "first denom and is left with intermediate denoms"),
    "wlest": ("estimate:ignores-whitelisted-sender",
              "estimate queries differ from the executed amount for a whitelisted (fee-exempt) sender: they apply the pair's "
              "taker fee that the execution does not charge"),
    "outprim": ("estimate:EstimateSwapExactAmountOutWithPrimitiveTypes:always-fails-empty-routes",
                "EstimateSwapExactAmountOutWithPrimitiveTypes never returns the executed amount: it fails with 'provided empty "
                "routes' for every request (the routes built from the primitive arrays are never appended)"),
}

MC_CFG = """SPECIFICATION MCSpec
CONSTANTS
  NAdd <- IAdd
  NSub <- ISub
  NMul <- IMul
  NLe <- ILe
  NFloorDiv <- IFloorDiv
  NCeilDiv <- ICeilDiv
  NZero = 0
  NOne = 1
  NScale = 10
  PoolIn <- ToyIn
  PoolOut <- ToyOut
  MaxHops = %(hops)d
  Amts = {%(amts)s}
  Fees = {%(fees)s}
  MaxSteps = 1
  GenMode = %(gen)s
  Profiles = {%(prof)s}
VIEW View
%(inv)s
CHECK_DEADLOCK FALSE
"""
PROPS = "INVARIANTS LimitsHold EstimateExact Conservation CompositionLaws\nPROPERTIES Atomic EstimatePure"


def dec(b):
    x = 0
    for l in reversed(b["m"]):
        x = x * 10000 + l
    return x * b["s"]


def describe(e):
    return {"op": e["op"], "who": e["who"], "lim": str(dec(e["lim"])), "ok": e["ok"], "err": e["err"], "amt": str(dec(e["amt"])),
            "legs": [{"amt": str(dec(l["amt"])), "route": l["route"]} for l in e["legs"]],
            "composition": {"ok": e["comp"]["ok"], "amt": str(dec(e["comp"]["amt"]))},
            "composition_nominal_precompute": {"ok": e["comp2"]["ok"], "amt": str(dec(e["comp2"]["amt"]))} if e.get("has2") else None,
            "estimates": [{"q": q["q"], "ok": q["ok"], "amt": str(dec(q["amt"])), "err": q["err"][:80]} for q in e["est"]],
            "sender_whitelisted": None}


def validate(prop, trace, cfg="TraceRouterKnown.cfg", parallel=None, timeout=2400):
    """vlib.validate_trace, additionally collecting the <<"DEVIATION", code, line>> prints."""
    parallel = parallel or min(vlib.NCPU, 12)
    chunks = vlib.split_histories(trace, parallel)

    def one(ch):
        return ch, vlib.tlc("TraceRouter.tla", cfg, workers=1, timeout=timeout, env={"TRACE_FILE": ch[0]}, heap="2g", tag=prop + "-trace")

    with concurrent.futures.ThreadPoolExecutor(max_workers=parallel) as ex:
        results = list(ex.map(one, chunks))
    gen = dist = nlines = 0
    devs = {}
    for (p, first, n), r in results:
        for pr in r.prints:
            if pr.startswith('<<"NOTE"'):
                k = "note:" + pr.split('"')[3]
                devs.setdefault(k, {"n": 0, "example": None})["n"] += 1
        if r.error:
            raise Infra("trace validation: %s" % r.error)
        gen, dist, nlines = gen + r.generated, dist + r.distinct, nlines + n
        lines = open(p).read().split("\n")
        if not r.ok:
            if r.rejected_line is not None and not r.violated:
                ln, what = r.rejected_line, "recorded routed swap is not a step of the specification"
            else:
                ln, what = (r.last_l or r.depth), "property %s is false in a recorded state" % r.violated
            hstart = ln - 1
            while hstart > 0 and '"e":"cfg"' not in lines[hstart]:
                hstart -= 1
            ev = json.loads(lines[ln - 1]) if 0 < ln <= len(lines) and lines[ln - 1] else {}
            fc = [x for x in r.failed_checks]
            if not fc:   # long names are wrapped by PrintT
                out = open(r.out, errors="replace").read()
                k = out.rfind('"CHECK-FAILED"')
                if k >= 0:
                    fc = [" ".join(out[k - 3:k + 300].split(">>")[0].split())]
            detail = {"spec": "TraceRouter.tla", "cfg": cfg, "chunk_line": ln, "trace_line": first + ln - 1, "reason": what,
                      "violated": r.violated, "failed_checks": fc[-2:], "event": describe(ev) if ev.get("e") == "op" and ev.get("op") != "other" else None,
                      "offending_event": lines[ln - 1][:4000] if 0 < ln <= len(lines) else None,
                      "history_start_line": first + hstart, "tlc_output": r.out, "trace": trace}
            sig = None
            if fc:
                what += ": " + fc[-1]
                sig = "trace:" + fc[-1][:120]
            raise Violation(prop, what, detail, sig)
        seen = set()
        for pr in r.prints:
            if pr.startswith('<<"DEVIATION"'):
                parts = pr.split('"')
                code, ln = parts[3], int(pr.rstrip(">").split(",")[-1])
                if (code, ln) in seen:
                    continue
                seen.add((code, ln))
                d = devs.setdefault(code, {"n": 0, "example": None})
                d["n"] += 1
                if d["example"] is None:
                    d["example"] = dict(describe(json.loads(lines[ln - 1])), trace_line=first + ln - 1)
    for p, _, _ in chunks:
        try:
            os.remove(p)
        except OSError:
            pass
    return gen, dist, nlines, devs


def scan(trace):
    """what the recorder actually exercised (non-vacuity)"""
    c = {}

    def inc(k, n=1):
        c[k] = c.get(k, 0) + n

    samples = []
    ptypes = {}
    for ln in open(trace):
        e = json.loads(ln)
        if e["e"] == "cfg":
            ptypes = {p["id"]: p["type"] for p in e["pools"]}
            for p in e["pools"]:
                inc("pool:" + p["type"])
            continue
        if e["op"] == "other":
            inc("other:" + e["name"] + (":ok" if e["ok"] else ":fail"))
            continue
        k = e["op"]
        inc(k + (":ok" if e["ok"] else ":fail"))
        nh = sum(len(l["route"]) for l in e["legs"])
        inc("obs", len(e["obs"]))
        if e["ok"]:
            if len(e["legs"]) == 1:
                inc("%s:ok:hops%d" % (k, nh))
            else:
                inc("%s:ok:legs%d" % (k, len(e["legs"])))
            if not e["distinct"]:
                inc("ok:revisits-a-pool")
            for l in e["legs"]:
                for h in l["route"]:
                    inc("ok:through:" + ptypes.get(h["pool"], "?"))
            if len({ptypes.get(h["pool"]) for l in e["legs"] for h in l["route"]}) == 3:
                inc("ok:all-three-pool-types-in-one-route")
        if e["comp"]["ok"]:
            good = {"swapIn": {-1: True, 0: True, 1: False}, "swapOut": {-1: False, 0: True, 1: True}}
            inc("limit:%s:off%+d:%s" % ("in" if k in ("swapIn", "splitIn") else "out", e["off"], "ok" if e["ok"] else "fail")
                if dec(e["lim"]) == dec(e["comp"]["amt"]) + e["off"] else "limit:other")
        else:
            inc("composition-fails")
        if e["st"]["wl"][e["who"] - 1]:
            inc("whitelisted-sender" + (":ok" if e["ok"] else ":fail"))
        for q in e["est"]:
            if e["distinct"]:
                inc("estimate:" + q["q"] + (":ok" if q["ok"] else ":fail"))
            elif q["ok"] and e["comp"]["ok"] and dec(q["amt"]) != dec(e["comp"]["amt"]) and not e["st"]["wl"][e["who"] - 1]:
                inc("estimate-differs-on-revisiting-route")
        if len(samples) < 3 and e["ok"] and nh >= 2:
            samples.append({"trace_event": dict(describe(e), observations=len(e["obs"]))})
    return c, samples


NEED = ["swapIn:ok", "swapIn:fail", "swapOut:ok", "swapOut:fail", "splitIn:ok", "splitIn:fail", "splitOut:ok", "splitOut:fail",
        "swapIn:ok:hops1", "swapIn:ok:hops2", "swapIn:ok:hops3", "swapIn:ok:hops4",
        "swapOut:ok:hops1", "swapOut:ok:hops2", "swapOut:ok:hops3", "swapOut:ok:hops4",
        "splitIn:ok:legs2", "splitOut:ok:legs2", "ok:revisits-a-pool",
        "ok:through:balancer", "ok:through:stableswap", "ok:through:concentrated", "ok:all-three-pool-types-in-one-route",
        "limit:in:off-1:ok", "limit:in:off+0:ok", "limit:in:off+1:fail", "limit:out:off+0:ok", "limit:out:off+1:ok",
        "whitelisted-sender:ok", "composition-fails",
        "estimate:in:ok", "estimate:inPrim:ok", "estimate:inSingle:ok", "estimate:out:ok", "estimate:outSingle:ok",
        "other:join:ok", "other:exit:ok", "other:clCreate:ok", "other:clWithdraw:ok", "other:setPairFee:ok",
        "other:setDefaultFee:ok", "other:toggleWhitelist:ok"]


def report_deviations(ctx, devs, leg):
    for code, d in sorted(devs.items()):
        if code.startswith("note:"):
            continue
        sig, what = SIGS.get(code, ("trace-deviation:" + code, "unclassified deviation " + code))
        ex = d["example"] or {}
        ctx.finding(sig, "%s (%d recorded events in the %s leg; e.g. %s lim=%s -> ok=%s amt=%s, hop-by-hop composition %s, estimates %s)"
                    % (what, d["n"], leg, ex.get("op"), ex.get("lim"), ex.get("ok"), ex.get("amt"),
                       json.dumps(ex.get("composition")), json.dumps(ex.get("estimates"))[:300]),
                    {"leg": leg, "events": d["n"], "example": ex})


def run(ctx):
    q = ctx.quick
    cov = {"samples": []}
    legs = os.environ.get("VERIF_C05_LEGS", "mc,replay,trace").split(",")   # development aid only
    states = trans = 0
    if "mc" in legs:
        states, trans = model_check(ctx, q, cov)
    binary = vlib.build_test("./app/router/", "router")
    all_devs = {}

    def merge(devs):
        for k, d in devs.items():
            a = all_devs.setdefault(k, {"n": 0, "example": d["example"]})
            a["n"] += d["n"]

    res, nb, n2 = {"behaviours": 0, "steps": 0, "skipped": 0}, 0, 0
    if "replay" in legs:
        res, nb, n2, s2, t2 = replay(ctx, q, cov, binary, merge)
        states, trans = states + s2, trans + t2
    if "trace" not in legs:
        report_deviations(ctx, all_devs, "replay")
        return
    record_and_validate(ctx, q, cov, binary, merge, all_devs, states, trans, res, nb, n2)


def model_check(ctx, q, cov):
    # 1. design: the bounded model
    ctx.leg = "mc"
    mc = dict(hops=3, amts="3", fees="0, 1", prof="1") if q else dict(hops=3, amts="2, 5", fees="0, 1", prof="1, 2, 3")
    r = vlib.tlc("MCRouter.tla", "mc.cfg", workers=vlib.NCPU, timeout=3000, heap="6g", tag="C05-mc",
                 cfg_text=MC_CFG % dict(mc, gen="FALSE", inv=PROPS))
    vlib.tlc_must_pass(r, "MCRouter")
    states, trans = r.distinct, r.generated
    log("MC: %d distinct / %d generated states, depth %d, %.0fs" % (r.distinct, r.generated, r.depth, r.wall))
    # the carve-out "each pool at most once" is not vacuous: TLC must find a revisiting route whose estimate differs
    w = vlib.tlc("MCRouter.tla", "wit.cfg", workers=4, timeout=1500, heap="3g", tag="C05-wit",
                 cfg_text=MC_CFG % dict(hops=2, amts="3", fees="0", prof="1", gen="FALSE", inv="INVARIANTS NoRevisitDifference"))
    if w.error:
        raise Infra("MCRouter witness: " + w.error)
    if w.violated != "NoRevisitDifference":
        raise Infra("the model has no pool-revisiting route whose estimate differs from its execution: the carve-out would be vacuous")
    log("MC witness: a route revisiting a pool is estimated differently from its execution (as the property allows)")
    cov["mc_states"], cov["mc_transitions"] = states, trans
    return states, trans


def replay(ctx, q, cov, binary, merge):
    # 2. spec -> impl: every generated behaviour on three real pools
    ctx.leg = "replay"
    gm = dict(hops=3, amts="3", fees="1", prof="1") if q else dict(hops=3, amts="3", fees="0, 1", prof="1")
    g = vlib.tlc("MCRouter.tla", "gen.cfg", workers=4, timeout=3000, heap="4g", tag="C05-gen", keep=True,
                 cfg_text=MC_CFG % dict(gm, gen="TRUE", inv="INVARIANTS Emit"))
    vlib.tlc_must_pass(g, "GenRouter")
    d = os.path.dirname(g.out)
    gen = os.path.join(d, "gen.jsonl")
    nb = vlib.extract_gen(g.out, gen)
    if nb == 0:
        raise Infra("generator produced no behaviours")
    rtrace = os.path.join(d, "replay.ndjson")
    vlib.run_test(binary, "TestReplay", {"VERIF_IN": gen, "VERIF_OUT": rtrace, "VERIF_SEED": ctx.seed}, timeout=3000)
    res = json.load(open(rtrace + ".result"))
    mm = res.get("mismatches") or []
    log("replayed %d spec behaviours (%d routed steps, %d refused by the real pools, %d of known deviating shape) on three real pools: "
        "%d verdict mismatches" % (res["behaviours"], res["steps"], res["skipped"], res.get("known_shape", 0), len(mm)))
    cov["samples"].append({"spec_behaviour": json.loads(open(gen).readline())})
    if mm:
        m = mm[0]
        beh = open(gen).read().split("\n")[m["behaviour"]]
        raise Violation("C05", "real router deviates from the specification on a generated behaviour: %s (want ok=%s, got %s)"
                        % (m["what"], m["want"], json.dumps(m["got"])[:300]), {"mismatch": m, "behaviour": json.loads(beh)},
                        "replay:" + m["what"])
    if res["steps"] - res["skipped"] < res["steps"] // 2:
        raise Infra("the real pools refused more than half of the generated steps")
    ctx.params = {"replay_behaviours": nb}
    g2, d2, n2, devs = validate("C05", rtrace)
    merge(devs)
    log("validated the %d events of the replayed behaviours against TraceRouter" % n2)
    return res, nb, n2, g.distinct + d2, g.generated + g2


def record_and_validate(ctx, q, cov, binary, merge, all_devs, states, trans, res, nb, n2):
    # 3. impl -> spec: recorded random histories
    ctx.leg = "trace"
    nh, nops = (32, 70) if q else (480, 90)
    ctx.params = {"histories": nh, "ops": nops}
    sd = vlib.scratch("C05-rec")
    trace = os.path.join(sd, "router.ndjson")
    vlib.run_test(binary, "TestRecord", {"VERIF_OUT": trace, "VERIF_SEED": ctx.seed, "VERIF_HISTORIES": nh, "VERIF_OPS": nops},
                  timeout=3000)
    counts, samples = scan(trace)
    cov["samples"] += samples
    for need in NEED:
        if counts.get(need, 0) == 0:
            raise Infra("recorder produced no %s: driver is not exercising the property" % need)
    g3, d3, n3, devs = validate("C05", trace)
    merge(devs)
    nrouted = sum(v for k, v in counts.items() if k.split(":")[0] in ("swapIn", "swapOut", "splitIn", "splitOut") and k.count(":") == 1)
    log("validated %d recorded events (%d routed messages, %d single-pool observations) of %d histories against TraceRouter"
        % (n3, nrouted, counts.get("obs", 0), nh))
    log("deviations tolerated only as findings: %s" % {k: v["n"] for k, v in all_devs.items()})
    cov.update({"states": states + d3, "transitions": trans + g3, "traces_validated_against_impl": nh + nb,
                "recorded_histories": nh, "recorded_events": n3, "routed_messages": nrouted, "observations": counts.get("obs", 0),
                "recorder_counts": counts, "spec_behaviours_replayed": res["behaviours"], "replayed_steps": res["steps"],
                "replayed_steps_refused_by_pools": res["skipped"], "replay_events_validated": n2,
                "deviations": {k: v["n"] for k, v in all_devs.items()},
                "checker_cmd": "bin/check C05 --tier " + ctx.tier})
    # 4. every deviation the trace specification had to tolerate is a finding
    ctx.leg = "findings"
    try:
        report_deviations(ctx, all_devs, "replay+trace")
    finally:
        cov["known_findings_hit"] = dict(ctx.known_hit)
        vlib.write_evidence("C05", ctx.tier, ctx.seed, "model_checking", cov, time.time() - ctx.t0,
                            ["TLC evaluator; Json/IOUtils community modules; BigNum java override",
                             "pool swap functions are observations: single-pool executions of the real code on discarded branches, "
                             "keyed by (pool, swaps applied before, kind, denoms, amount)",
                             "harness projection: sha256 over the bank, gamm, poolmanager, concentratedliquidity and params stores; bank balances",
                             "messages run on a cache context written only on success (baseapp): atomicity of failures is baseapp's",
                             "senders hold 10^60 of every denom (balance never decides an outcome); taker fees with at most 6 decimals"])


def evidence_on_violation(ctx, v):
    vlib.write_evidence("C05", ctx.tier, ctx.seed, "model_checking",
                        {"evaluations": 1, "distinct_nontrivial": 2, "samples": [v.what],
                         "explanation": "violation found in leg " + str(ctx.leg)}, time.time() - ctx.t0, [], 1)
