"""C17 - epoch timers tick once per elapsed period; hook failures stay contained.
Spec: spec/Epochs.tla.  Legs: exhaustive TLC (MCEpochs), spec->impl replay of one
behaviour per distinct idle state (GenEpochs), impl->spec validation of recorded
random schedules (TraceEpochs).  Design level, unbounded: Apalache inductive invariant + TLAPS proof of the timer
arithmetic (spec/apa/EpochsInd.tla, EpochsProof.tla; apalache_leg)."""
import json, os, time
import vlib
import checks.apalache as apalache
from vlib import Infra, Violation, log

TRUST = ("Trusted: TLC evaluator, Json/IOUtils community modules, harness projection functions "
         "(shared by both binding directions), go -overlay.")
MANIFEST = {
        "engine": "tlc+go-harness", "design_ref": "DESIGN.md section 4 (C17), Appendix A",
        "technique": "TLA+ spec Epochs.tla; TLC exhaustive MC; TLC-generated behaviours replayed on the real keeper; recorded schedules trace-validated by TLC; "
                     "Apalache inductive invariant + TLAPS proof of the timer arithmetic over unbounded integers (design level)",
        "text": "Epochs.tla models BeginBlocker as StartBlock/Call/EndBlock/Abort. TLC checks grid, once-per-block, tick-exactly-when-due, signal order and containment exhaustively on a bounded model (8.6e5 states quick); one behaviour per distinct idle state of a second bounded model (2.3e4 quick, 1e5 thorough) is executed on the real x/epochs keeper with scripted subscribers and compared after every block; random block-time/fault schedules recorded from the real keeper (timers 1-4, units ns..h, ok/err/panic (panic values: string, plain error, wrapped error, runtime error, arbitrary value)/out-of-gas (both panic values of the gas meters: limit exceeded and counter overflow) with partial writes) are validated line by line by TLC with every property as invariant. Design level, unbounded parameters: for one timer with any start time, any "
                "duration >= 1 and any non-decreasing block times, grid, nothing-before-start, at most one tick per block and exactly when due, and the signal "
                "count/order relation (ends = starts - 1, every signal in its place) are an inductive invariant of the typed sub-model spec/apa/EpochsInd.tla, "
                "checked by Apalache (initiation, consecution, implication, two broken variants that must fail) and proved by TLAPS (EpochsProof.tla); subscriber "
                "faults are outside that sub-model and the binding to the Go code remains the TLC trace/replay legs.",
        "note": TRUST + " Subscribers are scripted EpochHooks; block atomicity emulated like baseapp (cache context + recover).",
    }
BUILD = [("./lite/epochs/", "epochs")]

MC_CFG = """SPECIFICATION MCSpec
CONSTANTS
  CConf <- %(conf)s
  Deltas = {%(deltas)s}
  MaxT = %(maxt)d
  MaxH = %(maxh)d
  Writes = {1}
VIEW View
%(inv)s
CHECK_DEADLOCK FALSE
"""
PROPS = "INVARIANTS Grid NotBeforeStart SignalOrder\nPROPERTIES AtMostOneTick TickExactlyWhenDue AbortRestores NobodySkipped"


def apalache_leg(ctx, cov):
    """Design level, UNBOUNDED (any start, any duration >= 1, any non-decreasing block times): IndInv of
    spec/apa/EpochsInd.tla is inductive and implies the timing part of C17 (Apalache), and the same theorem is
    proved by TLAPS (EpochsProof.tla).  Never a verdict about the code: unexpected outcomes are Infra."""
    if apalache.skipped():
        log("VERIF_NO_APALACHE: unbounded design-level leg skipped")
        cov["apalache"] = {"skipped": "VERIF_NO_APALACHE"}
        return
    ctx.leg = "apalache"
    legs = apalache.standard_legs(step=None, broken=[
        ("NextBrokenGe", "IndInv", "tick when block time >= current start + duration (>= instead of >): TickExactlyWhenDue must break"),
        ("NextBrokenDrift", "IndInv", "the new epoch starts at the block time instead of current start + duration: Grid must break")])
    cov.update(apalache.run("C17", "EpochsInd.tla", legs, tlaps="EpochsProof.tla",
                            theorems=["Init => IndInv", "IndInv /\\ [Next]_vars => IndInv'", "Spec => []Property"]))


def run(ctx):
    q = ctx.quick
    cov = {"samples": []}
    # 0. design, unbounded parameters: inductive invariant of the timer arithmetic (Apalache + TLAPS)
    apalache_leg(ctx, cov)
    # 1. design: exhaustive model checking of the bounded spec
    ctx.leg = "mc"
    mcs = [("CfgA", "0, 1, 2, 5", 9, 6)] if q else [("CfgA", "0, 1, 2, 5", 11, 7), ("CfgC", "0, 1, 2, 3", 7, 7)]
    states = trans = 0
    for conf, deltas, maxt, maxh in mcs:
        r = vlib.tlc("MCEpochs.tla", "mc.cfg", workers=vlib.NCPU, timeout=1500, heap="12g", tag="C17-mc",
                     cfg_text=MC_CFG % dict(conf=conf, deltas=deltas, maxt=maxt, maxh=maxh, inv=PROPS))
        vlib.tlc_must_pass(r, "MCEpochs " + conf)
        states += r.distinct
        trans += r.generated
        log("MC %s: %d distinct / %d generated, depth %d, %.0fs" % (conf, r.distinct, r.generated, r.depth, r.wall))
    cov["mc_states"], cov["mc_transitions"] = states, trans

    binary = vlib.build_test("./lite/epochs/", "epochs")

    # 2. spec -> impl: every distinct idle state's shortest behaviour, replayed on the real keeper
    ctx.leg = "replay"
    gens = [("CfgB", "0, 1, 3, 7", 8, 4)] if q else [("CfgB", "0, 1, 3, 7", 8, 6), ("CfgC", "0, 1, 2", 6, 6)]
    replayed = blocks = 0
    for conf, deltas, maxt, maxh in gens:
        r = vlib.tlc("MCEpochs.tla", "gen.cfg", workers=4, timeout=1500, heap="12g", tag="C17-gen", keep=True,
                     cfg_text=MC_CFG % dict(conf=conf, deltas=deltas, maxt=maxt, maxh=maxh, inv="INVARIANTS Emit"))
        vlib.tlc_must_pass(r, "GenEpochs " + conf)
        d = os.path.dirname(r.out)
        gen = os.path.join(d, "gen.jsonl")
        n = vlib.extract_gen(r.out, gen)
        if n == 0:
            raise Infra("generator produced no behaviours")
        nsh = 8
        import concurrent.futures

        def shard(i):
            vlib.run_test(binary, "TestReplay", {"VERIF_IN": gen, "VERIF_OUT": gen + ".result%d" % i, "VERIF_SHARD": "%d/%d" % (i, nsh)}, timeout=2400)
            return json.load(open(gen + ".result%d" % i))
        with concurrent.futures.ThreadPoolExecutor(max_workers=nsh) as ex:
            parts = list(ex.map(shard, range(nsh)))
        res = {"behaviours": sum(p["behaviours"] for p in parts), "blocks": sum(p["blocks"] for p in parts),
               "mismatches": [m for p in parts for m in (p.get("mismatches") or [])]}
        replayed += res["behaviours"]
        blocks += res["blocks"]
        if not cov["samples"]:
            cov["samples"].append({"spec_behaviour": json.loads(open(gen).readline())})
        log("replayed %d spec behaviours (%d blocks) of %s on the real keeper: %d mismatches"
            % (res["behaviours"], res["blocks"], conf, len(res["mismatches"])))
        if res["mismatches"]:
            m = res["mismatches"][0]
            beh = open(gen).read().split("\n")[m["behaviour"]]
            raise Violation("C17", "real keeper deviates from the specification on a generated behaviour: %s (want %s, got %s)"
                            % (m["what"], json.dumps(m["want"])[:300], json.dumps(m["got"])[:300]),
                            {"mismatch": m, "behaviour": json.loads(beh)}, "replay:" + m["what"])
        states += r.distinct
        trans += r.generated

    # 3. impl -> spec: recorded random schedules validated line by line
    ctx.leg = "trace"
    nh, nb = (32, 150) if q else (480, 300)
    ctx.params = {"histories": nh, "blocks": nb}
    d = vlib.scratch("C17-rec")
    trace = os.path.join(d, "epochs.ndjson")
    out = vlib.run_test(binary, "TestRecord", {"VERIF_OUT": trace, "VERIF_SEED": ctx.seed,
                                               "VERIF_HISTORIES": nh, "VERIF_BLOCKS": nb})
    with open(trace) as f:
        for i, ln in enumerate(f):
            if i in (0, 1, 2, 3):
                cov["samples"].append({"trace_event": json.loads(ln)})
    kinds = {}
    for ln in open(trace):
        k = json.loads(ln)
        key = k["e"] + (":" + k["o"] if k["e"] == "call" else "")
        kinds[key] = kinds.get(key, 0) + 1
    for need in ("call:ok", "call:err", "call:panic", "call:oog", "abort", "end"):
        if kinds.get(need, 0) == 0:
            raise Infra("recorder produced no %s events: driver is not exercising the property" % need)
    gen_, dist_, nlines = vlib.validate_trace("C17", "TraceEpochs.tla", "TraceEpochs.cfg", trace)
    log("validated %d recorded events of %d histories against TraceEpochs" % (nlines, nh))
    cov.update({"states": states + dist_, "transitions": trans + gen_,
                "traces_validated_against_impl": nh + replayed,
                "recorded_histories": nh, "recorded_events": nlines, "event_kinds": kinds,
                "spec_behaviours_replayed": replayed, "blocks_replayed": blocks,
                "checker_cmd": "bin/check C17 --tier " + ctx.tier})
    vlib.write_evidence("C17", ctx.tier, ctx.seed, "model_checking", cov, time.time() - ctx.t0,
                        ["TLC evaluator; Json/IOUtils community modules",
                         "Apalache + Z3 / tlapm + its backends for the unbounded design-level leg (a statement about the typed sub-model "
                         "spec/apa/EpochsInd.tla, one timer, subscribers abstracted; it never replaces a TLC leg)",
                         "harness projection of EpochInfo / subscriber stores (shared by both binding directions)",
                         "subscribers are scripted EpochHooks writing to their own KV store through the ctx they receive",
                         "block atomicity is emulated as baseapp does it: cache context written unless the begin blocker panics"])


def evidence_on_violation(ctx, v):
    vlib.write_evidence("C17", ctx.tier, ctx.seed, "model_checking",
                        {"evaluations": 1, "distinct_nontrivial": 2, "samples": [v.what],
                         "explanation": "violation found in leg " + str(ctx.leg)}, time.time() - ctx.t0, [], 1)
