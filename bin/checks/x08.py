"""X08 (extra) - x/protorev: cyclic-arbitrage back-running in the post handler, its point budgets, its profit
accounting and distribution, its admin messages and its highest-liquidity pool index.
Spec: spec/ProtoRev.tla (properties P1-P9 in its header).
Legs: exhaustive TLC on bounded models (MCProtoRev: the reference design stays inside the relational specification,
every invariant / action property), spec->impl replay of one behaviour per distinct state of those models on the real
app (real signed transactions, real pools; the executions are logged and validated by TLC as well), impl->spec
validation of recorded random histories (TraceProtoRev)."""
import concurrent.futures, json, os, re, time
import vlib
from vlib import Infra, Violation, log

TRUST = ("Trusted: TLC evaluator, Json/IOUtils community modules, harness projection functions (shared by both binding "
         "directions; liquidity is projected to its rank among the pools), go -overlay.")
MANIFEST = {
    "engine": "tlc+go-harness", "design_ref": "docs/extra_x08.md; DESIGN.md section 3 (common method)",
    "technique": "TLA+ spec ProtoRev.tla; TLC exhaustive MC on bounded models; TLC-generated behaviours replayed on the real "
                 "app through real signed transactions; recorded histories trace-validated by TLC",
    "text": "ProtoRev.tla models a transaction as Deliver (messages, atomically: swaps note their hops, the six admin messages "
            "are accepted iff sent by the admin and well formed) and PostHandle (a relational outcome: every back-run answers a "
            "swap of the transaction over a cyclic candidate route - hot route or highest-liquidity route - against the user's "
            "swap, out > in, profit = out - in, points consumed are the cost of candidate routes within the per-tx and per-block "
            "budgets), the day-epoch hook (floor split by phase to developer / burn / community pool, day counter, index "
            "refresh), governance switches, pool creation and liquidity moves. Invariants: configuration well formed, index "
            "sound, statistics add up, profits + deposits = module + developers + burnt + community pool, supply constant; "
            "action properties: quiet when off, failed transactions leave nothing, budgets, block starts at zero, module never "
            "loses, only trades count, others untouched, day counter, epoch pays everything, index moves only when stated, admin only.",
    "note": TRUST + " Transactions are real signed transactions through BaseApp.runTx in finalize mode (ante, messages, post "
            "handlers); the epoch hook is wrapped as x/epochs wraps it; governance handlers are called directly.",
}
BUILD = [("./app/protorev/", "protorev")]

MC_CFG = """SPECIFICATION MCSpec
CONSTANTS
  Denoms <- D
  MaxOps = %(ops)d
  MaxH = %(h)d
  TxIds = {%(tx)s}
  Days0 = %(days)d
  Idents = {%(idents)s}
  Gov = %(gov)s
  Env = %(env)s
VIEW View
%(inv)s
CHECK_DEADLOCK FALSE
"""
PROPS = ("INVARIANTS TypeOK ConfigWellFormed IndexSound StatsAddUp ProfitsAccounted SupplyConstant\n"
         "PROPERTIES PoolsStatic QuietWhenOff FailedTxLeavesNothing BudgetRespected BlockStartsAtZero ModuleNeverLoses OnlyTradesCount "
         "OthersUntouchedByPost DaysCount EpochPaysEverything IndexOnlyMovesWhenStated AdminOnly")
MC_ACTIONS = ("MCDeliver", "MCPost", "MCBlock", "MCEpoch", "MCEnable", "MCSetAdmin", "MCLp", "MCPool")

SWAPS = ["s1", "s2", "s3", "s4", "s5", "s6", "s7", "s8"]
FUNDS = ["f4", "f7", "f9", "fc", "fa"]
COMBO = ["x1", "x2", "x3"]
ADMIN_OK = ["mt6", "mt12", "mb8", "mb20", "dv", "dv2", "in1", "bs2", "bs1", "h1"]
ADMIN_BAD = ["mt0", "mt51", "mt6e", "mb201", "mb0", "mb20e", "dvx", "dve", "inz", "int", "ine", "bsx", "bsd", "bsz", "bs2e",
             "hone", "hend", "hchn", "hplc", "hstp", "hdup", "h1e"]


def mc_cfg(tx, ops, days=364, h=2, idents=("day", "week"), gov=True, env=True, inv=PROPS):
    return MC_CFG % dict(ops=ops, h=h, tx=", ".join('"%s"' % t for t in tx), days=days, idents=", ".join('"%s"' % i for i in idents),
                         gov="TRUE" if gov else "FALSE", env="TRUE" if env else "FALSE", inv=inv)


# deviations of the current tree from the stated properties that the trace specification follows and reports
SIG = {
    "leftover": "post:back-run-of-an-earlier-transactions-swap:block-budget-spent-then-raised",
    "nodev": "epoch:hook-fails-as-a-whole:no-developer-account",
    "zeroshare": "epoch:hook-fails-as-a-whole:developer-share-rounds-to-zero",
    "routeprefix": "query:statistics-by-route:profits-of-routes-whose-key-continues-this-key",
}
DEV_PROP = {"leftover": "P2 (scope)", "nodev": "P7 / P9 (distribution, day counter, index refresh)",
            "zeroshare": "P7 / P9 (distribution, day counter, index refresh)", "routeprefix": "P6 (queries answer the counters)"}
TEXT = {
    "leftover": "the post handler back-ran a swap of an EARLIER transaction of the block: when it returns early because the block's point "
                "budget is spent (or the module is disabled) it does not delete the swaps noted in the transient store; once the budget "
                "is raised in the same block, the next transaction - whatever it contains - is followed by back-runs for them",
    "nodev": "the day-epoch hook fails as a whole while no developer account is named (DistributeProfit returns the lookup error "
             "first): the day counter does not advance and the highest-liquidity index is not refreshed (also noted in docs/findings_c19.json)",
    "zeroshare": "the day-epoch hook fails as a whole when the developer's share of some base denomination rounds down to zero (module "
                 "balance of 1-4 units in phase 1, 1-9 in phase 2, 1-19 afterwards): a zero coin is put into the send ('0uosmo: invalid "
                 "coins'); nothing is distributed, the day counter does not advance, the index is not refreshed - and it repeats every day "
                 "until the balance grows",
    "routeprefix": "GetProtoRevStatisticsByRoute / AllRouteStatistics add to a route's profits those of every other route whose store key "
                   "continues this route's key: the profits are collected with a store prefix that ends with the route key without a "
                   "separator (route 2|3|1 also collects 2|3|11...)",
}


RE_COV = re.compile(r"^<(MC\w+) line .*>: (\d+):(\d+)")


def action_coverage(out):
    cov = {}
    for line in open(out, errors="replace"):
        m = RE_COV.match(line)
        if m:
            cov[m.group(1)] = cov.get(m.group(1), 0) + int(m.group(3))
    return cov


def scan(trace):
    """What the recorder exercised (non-vacuity)."""
    keys = ("histories", "events", "tx", "tx_ok", "tx_failed", "tx_failed_with_discarded_backrun", "backruns", "tx_two_backruns",
            "backrun_three_pools", "backrun_two_pools", "backrun_other_base_denom", "backrun_through_cl", "backrun_through_stable",
            "backrun_after_swapout", "backrun_after_gamm_swap", "backrun_after_join", "backrun_after_two_hop_swap",
            "swaps_while_disabled", "swaps_with_block_budget_spent", "points_without_backrun", "budget_cut_short",
            "admin_accepted", "admin_by_stranger", "admin_malformed", "admin_inside_swap_tx", "deposit", "block", "epoch_day", "epoch_other",
            "epoch_paid_developer", "epoch_burnt", "epoch_to_community_pool", "epoch_left_other_denoms", "epoch_no_developer_account",
            "epoch_tiny_balance", "epoch_disabled", "epoch_index_changed", "phase1", "phase2", "phase3", "enable", "setadmin",
            "pool", "pool_takes_index", "lp", "routes_with_continuing_keys", "hot_routes_set", "bases_changed")
    c = {k: 0 for k in keys}
    admin_kinds = {}
    prev = None
    pend = None
    for ln in open(trace):
        e = json.loads(ln)
        k = e["e"]
        c["events"] += 1
        st = e.get("st")
        if k == "cfg":
            c["histories"] += 1
        elif k == "tx":
            pend = e
        elif k == "post":
            c["tx"] += 1
            c["tx_ok" if e["ok"] else "tx_failed"] += 1
            c["tx_failed_with_discarded_backrun"] += (not e["ok"]) and e["ghost"] > 0
            msgs = pend["msgs"]
            swaps = [m for m in msgs if m["k"] in ("swapin", "swapout", "gswap", "join")]
            admins = [m for m in msgs if m["k"] in ("hot", "devacct", "maxtx", "maxblock", "info", "bases")]
            cfg0 = prev["cfg"]
            for m in admins:
                by_admin = m["by"] == cfg0["admin"]
                if e["ok"]:
                    c["admin_accepted"] += 1
                    admin_kinds[m["k"] + ":ok"] = admin_kinds.get(m["k"] + ":ok", 0) + 1
                    c["hot_routes_set"] += m["k"] == "hot"
                    c["bases_changed"] += m["k"] == "bases"
                elif not by_admin:
                    c["admin_by_stranger"] += 1
                elif len(msgs) == 1:
                    c["admin_malformed"] += 1
                    admin_kinds[m["k"] + ":bad"] = admin_kinds.get(m["k"] + ":bad", 0) + 1
            c["admin_inside_swap_tx"] += bool(admins and swaps and e["ok"])
            c["deposit"] += any(m["k"] == "fund" for m in msgs) and e["ok"]
            tr = e["trades"]
            c["backruns"] += len(tr)
            c["tx_two_backruns"] += len(tr) >= 2
            delta = st["blk"]["used"] - prev["blk"]["used"] if e["ok"] else 0
            kinds = {i + 1: p["kind"] for i, p in enumerate(st["pools"])}
            for t in tr:
                c["backrun_three_pools"] += len(t["hops"]) == 3
                c["backrun_two_pools"] += len(t["hops"]) == 2
                c["backrun_other_base_denom"] += t["denom"] != "uosmo"
                c["backrun_through_cl"] += any(kinds[h["pool"]] == "cl" for h in t["hops"])
                c["backrun_through_stable"] += any(kinds[h["pool"]] == "stable" for h in t["hops"])
            if tr:
                c["backrun_after_swapout"] += any(m["k"] == "swapout" for m in swaps)
                c["backrun_after_gamm_swap"] += any(m["k"] == "gswap" for m in swaps)
                c["backrun_after_join"] += any(m["k"] == "join" for m in swaps)
                c["backrun_after_two_hop_swap"] += any(len(m["hops"]) == 2 for m in swaps)
            if e["ok"] and swaps:
                c["swaps_while_disabled"] += not st["cfg"]["enabled"]
                c["swaps_with_block_budget_spent"] += st["cfg"]["enabled"] and prev["blk"]["used"] >= st["cfg"]["maxBlock"]
                c["points_without_backrun"] += delta > 0 and not tr
                c["budget_cut_short"] += delta > 0 and (delta == st["cfg"]["maxTx"] or st["blk"]["used"] == st["cfg"]["maxBlock"])
            rs = [r["route"] for r in st["stats"]["routes"]]
            c["routes_with_continuing_keys"] += any(a != b and "|".join(map(str, b)).startswith("|".join(map(str, a))) for a in rs for b in rs)
        elif k == "block":
            c["block"] += 1
        elif k == "epoch":
            day = e["ident"] == "day"
            c["epoch_day" if day else "epoch_other"] += 1
            if day:
                p, b = prev, st
                on = p["cfg"]["enabled"]
                c["epoch_disabled"] += not on
                bases = [x["d"] for x in p["cfg"]["bases"]]
                if on:
                    c["epoch_no_developer_account"] += p["cfg"]["dev"] == ""
                    d = p["cfg"]["days"]
                    split = 20 if d < 365 else 10 if d < 730 else 5
                    c["epoch_tiny_balance"] += p["cfg"]["dev"] != "" and any(0 < p["bank"]["mod"][x] and p["bank"]["mod"][x] * split < 100 for x in bases)
                    paid = any(b["bank"]["dev"][n][x] > p["bank"]["dev"][n][x] for n in b["bank"]["dev"] for x in b["bank"]["dev"][n])
                    c["epoch_paid_developer"] += paid
                    if paid:
                        c["phase1" if d < 365 else "phase2" if d < 730 else "phase3"] += 1
                    c["epoch_burnt"] += b["bank"]["null"]["uosmo"] > p["bank"]["null"]["uosmo"]
                    c["epoch_to_community_pool"] += any(b["bank"]["cp"][x] > p["bank"]["cp"][x] for x in b["bank"]["cp"])
                    c["epoch_left_other_denoms"] += e["ok"] and any(v > 0 for x, v in b["bank"]["mod"].items() if x not in bases)
                    c["epoch_index_changed"] += b["idx"] != p["idx"]
        elif k == "enable":
            c["enable"] += 1
        elif k == "setadmin":
            c["setadmin"] += 1
        elif k == "pool":
            c["pool"] += 1
            c["pool_takes_index"] += any(x["p"] == len(st["pools"]) for x in st["idx"])
        elif k == "lp":
            c["lp"] += 1
        if st is not None:
            prev = st
    c["admin_kinds"] = admin_kinds
    return c


def validate(trace, parallel, tag):
    """Trace validation in chunks; returns (generated, distinct, lines, [(tag, trace line)])."""
    chunks = vlib.split_histories(trace, parallel)
    gen = dist = nlines = 0
    devs = []

    def one(ch):
        return ch, vlib.tlc("TraceProtoRev.tla", "TraceProtoRev.cfg", workers=1, timeout=2400, env={"TRACE_FILE": ch[0]}, heap="3g", tag=tag)

    with concurrent.futures.ThreadPoolExecutor(max_workers=parallel) as ex:
        results = list(ex.map(one, chunks))
    for (p, start, n), r in results:
        if r.error:
            raise Infra("trace validation: %s" % r.error)
        gen += r.generated
        dist += r.distinct
        nlines += n
        if not r.ok:
            if r.rejected_line is not None and not r.violated:
                ln, what = r.rejected_line, "recorded step is not a step of the specification"
            else:
                ln, what = (r.last_l if r.last_l else r.depth), "property %s is false in a recorded state" % r.violated
            lines = open(p).read().split("\n")
            hstart = ln - 1
            while hstart > 0 and '"e":"cfg"' not in lines[hstart]:
                hstart -= 1
            checks = [x for x in r.failed_checks]
            # a rejected post line prints the named conjuncts of the stated outcome: the first one that failed is the reason
            reason = checks[-1] if checks else ""
            named = [x for x in checks if '"P' in x or '"state' in x or '"query' in x]
            if named:
                reason = named[0] if len(named) == 1 else named[-1]
            detail = {"spec": "TraceProtoRev.tla", "chunk_line": ln, "trace_line": start + ln - 1, "reason": what, "violated": r.violated,
                      "failed_checks": checks[-6:], "offending_event": lines[ln - 1][:6000] if 0 < ln <= len(lines) else None,
                      "history_prefix": [x[:2500] for x in lines[hstart:ln][-40:]], "tlc_output": r.out}
            if reason and not r.violated:
                what += ": " + reason
            m = re.search(r'"CHECK-FAILED", "([^"]*)"', reason)
            sig = "trace:" + (r.violated or (m.group(1) if m else "rejected"))
            raise Violation("X08", what + (" (%s)" % r.violated if r.violated else ""), detail, sig)
        for x in r.prints:
            m = re.match(r'<<"DEV", "(\w+)", (\d+)>>', x)
            if m:
                devs.append((m.group(1), start + int(m.group(2)) - 1))
    for p, _, _ in chunks:
        try:
            os.remove(p)
        except OSError:
            pass
    return gen, dist, nlines, devs


def nth_lines(path, wanted):
    res = {}
    want = set(wanted)
    with open(path) as f:
        for i, ln in enumerate(f, 1):
            if i in want:
                res[i] = ln
    return res


def report_devs(ctx, trace, devs, cov_key, cov):
    """Every reported deviation is a stated property false on a real execution: a finding (known ones are printed once)."""
    by = {}
    for tag, ln in devs:
        by.setdefault(tag, []).append(ln)
    cov[cov_key] = {SIG.get(t, t): len(v) for t, v in by.items()}
    for tag in sorted(by):
        lns = sorted(by[tag])
        first = lns[0]
        ctxl = nth_lines(trace, range(max(1, first - 3), first + 1))
        ev = json.loads(ctxl[first])
        ev.pop("q", None) if tag != "routeprefix" else None
        detail = {"property": DEV_PROP.get(tag), "occurrences": len(lns), "first_trace_line": first, "trace": trace,
                  "event": json.dumps(ev)[:5000], "before": [ctxl[i][:1500] for i in sorted(ctxl) if i != first]}
        ctx.finding(SIG.get(tag, "deviation:" + tag), TEXT.get(tag, tag), detail)


def run(ctx):
    q = ctx.quick
    cov = {"samples": []}
    legs = [x for x in os.environ.get("VERIF_X08_LEGS", "mc,replay,trace").split(",") if x]
    workers = 4 if q else min(vlib.NCPU, 8)
    pool = concurrent.futures.ThreadPoolExecutor(max_workers=1)
    building = pool.submit(vlib.build_test, "./app/protorev/", "protorev")

    # 1. design: exhaustive model checking of bounded models (the reference design inside the relational specification)
    ctx.leg = "mc"
    core = SWAPS + FUNDS + COMBO + ["dv", "mt6", "mt12", "mb8", "bs2", "h1"]
    if q:
        mcs = [("trading, budgets, deposits, epochs, governance, environment: 4 operations, day 364", dict(tx=core, ops=4)),
               ("every admin message (10 accepted shapes, 22 refused ones) around a swap and an epoch: 3 operations, day 729",
                dict(tx=ADMIN_OK + ADMIN_BAD + ["s1", "s3", "f7"], ops=3, days=729, env=False))]
    else:
        mcs = [("trading, budgets, deposits, epochs, governance, environment: 5 operations, day 364", dict(tx=core, ops=5, h=3)),
               ("every admin message around swaps and epochs: 4 operations, day 729",
                dict(tx=ADMIN_OK + ADMIN_BAD + ["s1", "s3", "s6", "f7"], ops=4, days=729, env=False)),
               ("trading and epochs from day 0 without governance: 5 operations", dict(tx=SWAPS + FUNDS + ["dv", "dv2", "bs2"], ops=5, days=0, gov=False, env=False))]
    states = trans = 0
    mc_detail, taken = [], {}
    try:
        for name, kw in (mcs if "mc" in legs else []):
            r = vlib.tlc("MCProtoRev.tla", "mc.cfg", workers=workers, timeout=3000, heap="4g" if q else "8g", tag="X08-mc", keep=True,
                         cfg_text=mc_cfg(**kw), extra=["-coverage", "1"])
            vlib.tlc_must_pass(r, "MCProtoRev (%s)" % name)
            ac = action_coverage(r.out)
            for a in MC_ACTIONS:
                taken[a] = taken.get(a, 0) + ac.get(a, 0)
            states += r.distinct
            trans += r.generated
            mc_detail.append({"model": name, "distinct": r.distinct, "generated": r.generated, "depth": r.depth, "wall_s": round(r.wall), "actions": ac})
            log("MC %s: %d distinct / %d generated, depth %d, %.0fs" % (name, r.distinct, r.generated, r.depth, r.wall))
    finally:
        binary = building.result()
    for a in MC_ACTIONS:
        if taken.get(a, 0) == 0 and "mc" in legs:
            raise Infra("MCProtoRev: action %s was never taken in any bounded model" % a)
    cov["mc_states"], cov["mc_transitions"], cov["mc_models"], cov["mc_action_coverage"] = states, trans, mc_detail, taken
    t_mc = time.time()

    # 2. spec -> impl: one behaviour per distinct state of bounded models, executed on the real app; the executions are
    #    logged in the recorder's format and validated by TLC too
    ctx.leg = "replay"
    replayed = rsteps = rlines = 0
    rkinds, rtot = {}, {"txs": 0, "backruns": 0, "refused": 0}
    if "replay" in legs:
        focus = ["s1", "s2", "s3", "s4", "s5", "s6", "x1", "x2", "dv", "f7", "f9", "fc", "bs2", "h1"]
        if q:
            gens = [("everything, 2 operations, day 364", dict(tx=core, ops=2)),
                    ("trading / budgets / deposits / epochs / blocks, 3 operations, day 365", dict(tx=focus, ops=3, days=365, gov=False, env=False)),
                    ("every admin message, 2 operations, day 729", dict(tx=ADMIN_OK + ADMIN_BAD + ["s1", "x3", "f7"], ops=2, days=729, env=False))]
        else:
            gens = [("everything, 3 operations, day 364", dict(tx=core, ops=3)),
                    ("trading / budgets / deposits / epochs / blocks, 4 operations, day 365", dict(tx=focus, ops=4, days=365, gov=False, env=False)),
                    ("every admin message, 3 operations, day 729", dict(tx=ADMIN_OK + ADMIN_BAD + ["s1", "x3", "f7"], ops=3, days=729, env=False)),
                    ("trading and epochs from day 0, 4 operations", dict(tx=["s1", "s3", "s4", "s6", "f4", "f7", "fc", "dv", "dv2", "bs2"], ops=4, days=0, gov=False, env=False))]
        nsh = 4 if q else 8
        for name, kw in gens:
            r = vlib.tlc("MCProtoRev.tla", "gen.cfg", workers=workers, timeout=3000, heap="4g" if q else "6g", tag="X08-gen", keep=True,
                         cfg_text=mc_cfg(inv="INVARIANTS Emit", **kw))
            vlib.tlc_must_pass(r, "generator (%s)" % name)
            d = os.path.dirname(r.out)
            gen = os.path.join(d, "gen.jsonl")
            n = vlib.extract_gen(r.out, gen)
            os.remove(r.out)
            if n == 0:
                raise Infra("generator produced no behaviours")
            states += r.distinct
            trans += r.generated

            def shard(i):
                vlib.run_test(binary, "TestReplay", {"VERIF_IN": gen, "VERIF_OUT": gen + ".result%d" % i, "VERIF_SHARD": "%d/%d" % (i, nsh),
                                                     "VERIF_TRACE": gen + ".trace%d" % i}, timeout=3000)
                return json.load(open(gen + ".result%d" % i))
            with concurrent.futures.ThreadPoolExecutor(max_workers=nsh) as ex:
                parts = list(ex.map(shard, range(nsh)))
            mism = [m for p in parts for m in (p.get("mismatches") or [])]
            nb = sum(p["behaviours"] for p in parts)
            replayed += nb
            rsteps += sum(p["steps"] for p in parts)
            for p in parts:
                for k in rtot:
                    rtot[k] += p[k]
                for k, v in p["kinds"].items():
                    rkinds[k] = rkinds.get(k, 0) + v
            if not any("spec_behaviour" in s for s in cov["samples"]):
                b = json.loads(open(gen).readline())
                cov["samples"].append({"spec_behaviour": [{k: v for k, v in s.items() if k not in ("expect", "msgs")} for s in b["steps"]]})
            log("replayed %d behaviours of '%s' (%d steps) on the real app: %d mismatches" % (nb, name, sum(p["steps"] for p in parts), len(mism)))
            if mism:
                m = min(mism, key=lambda x: (x["behaviour"], x["step"]))
                with open(gen) as f:
                    for i, ln in enumerate(f):
                        if i == m["behaviour"]:
                            beh = json.loads(ln)
                            break
                raise Violation("X08", "the real app deviates from the specification on a generated behaviour: %s (want %s, got %s)"
                                % (m["what"], json.dumps(m["want"])[:300], json.dumps(m["got"])[:300]),
                                {"mismatch": m, "behaviour": beh, "model": name}, "replay:" + re.sub(r" \w+ \(", " (", m["what"]))
            # the same executions, validated by TLC
            trs = [gen + ".trace%d" % i for i in range(nsh) if os.path.getsize(gen + ".trace%d" % i) > 0]
            with concurrent.futures.ThreadPoolExecutor(max_workers=nsh) as ex:
                vals = list(ex.map(lambda tr: validate(tr, 1, "X08-rtrace"), trs))
            for tr, (g_, d_, n_, devs) in zip(trs, vals):
                states += d_
                trans += g_
                rlines += n_
                if devs:
                    report_devs(ctx, tr, devs, "replay_trace_deviations", cov)
            import shutil
            shutil.rmtree(d, ignore_errors=True)
        for need in ("tx:s1", "tx:s4", "tx:s5", "tx:s6", "tx:x1", "tx:bs2", "tx:h1", "tx:mt6e", "tx:hend", "epoch", "block", "enable"):
            if rkinds.get(need, 0) == 0:
                raise Infra("no replayed behaviour contains %s" % need)
        if rtot["backruns"] == 0 or rtot["refused"] == 0:
            raise Infra("the replayed behaviours contain no back-run / no refused transaction")
        log("replay: %d behaviours, %d steps, %d transactions (%d refused), %d back-runs; %d logged lines validated by TLC (%.0fs)"
            % (replayed, rsteps, rtot["txs"], rtot["refused"], rtot["backruns"], rlines, time.time() - t_mc))

    # 3. impl -> spec: recorded random histories validated line by line
    ctx.leg = "trace"
    nh = nlines = 0
    c = {}
    if "trace" in legs:
        nh, ns = (48, 70) if q else (720, 90)
        ctx.params = {"histories": nh, "steps": ns}
        d = vlib.scratch("X08-rec")
        trace = os.path.join(d, "protorev.ndjson")
        vlib.run_test(binary, "TestRecord", {"VERIF_OUT": trace, "VERIF_SEED": ctx.seed, "VERIF_HISTORIES": nh, "VERIF_STEPS": ns}, timeout=2400)
        with open(trace) as f:
            for i, ln in enumerate(f):
                if i in (1, 2, 30, 31):
                    e = json.loads(ln)
                    e.pop("q", None)
                    if "st" in e:
                        e["st"] = {k: v for k, v in e["st"].items() if k in ("blk", "stats")}
                    cov["samples"].append({"trace_event": e})
        c = scan(trace)
        for need in ("tx_ok", "tx_failed", "tx_failed_with_discarded_backrun", "backruns", "tx_two_backruns", "backrun_three_pools", "backrun_two_pools",
                     "backrun_other_base_denom", "backrun_through_cl", "backrun_after_swapout", "backrun_after_gamm_swap", "backrun_after_join",
                     "backrun_after_two_hop_swap", "swaps_while_disabled", "swaps_with_block_budget_spent", "budget_cut_short", "admin_accepted",
                     "admin_by_stranger", "admin_malformed", "admin_inside_swap_tx", "deposit", "block", "epoch_day", "epoch_other", "epoch_paid_developer",
                     "epoch_burnt", "epoch_to_community_pool", "epoch_left_other_denoms", "epoch_no_developer_account", "epoch_tiny_balance",
                     "epoch_disabled", "phase1", "phase2", "phase3", "enable", "setadmin", "pool", "pool_takes_index", "lp", "routes_with_continuing_keys",
                     "hot_routes_set", "bases_changed"):
            if c[need] == 0:
                raise Infra("recorder produced no %s: driver is not exercising the property" % need)
        for kind in ("hot", "devacct", "maxtx", "maxblock", "info", "bases"):
            for o in ("ok", "bad"):
                if c["admin_kinds"].get(kind + ":" + o, 0) == 0:
                    raise Infra("recorder produced no %s admin message of kind %s" % ("accepted" if o == "ok" else "malformed", kind))
        gen_, dist_, nlines, devs = validate(trace, 4 if q else 12, "X08-trace")
        log("validated %d recorded events of %d histories against TraceProtoRev: %d transactions (%d refused), %d back-runs, %d day-epoch ends, "
            "%d admin messages accepted / %d refused" % (nlines, nh, c["tx"], c["tx_failed"], c["backruns"], c["epoch_day"], c["admin_accepted"],
                                                         c["admin_by_stranger"] + c["admin_malformed"]))
        states += dist_
        trans += gen_
        report_devs(ctx, trace, devs, "trace_deviations", cov)

    if set(legs) != {"mc", "replay", "trace"}:
        log("development run (VERIF_X08_LEGS=%s): no evidence written" % ",".join(legs))
        return
    cov.update({"states": states, "transitions": trans, "traces_validated_against_impl": nh + replayed,
                "recorded_histories": nh, "recorded_events": nlines, "recorder_counts": c,
                "spec_behaviours_replayed": replayed, "steps_replayed": rsteps, "replayed": rtot, "replayed_kinds": rkinds,
                "replay_lines_validated_by_tlc": rlines, "known_findings_hit": dict(ctx.known_hit),
                "checker_cmd": "bin/check X08 --tier " + ctx.tier})
    vlib.write_evidence("X08", ctx.tier, ctx.seed, "model_checking", cov, time.time() - ctx.t0,
                        ["TLC evaluator; Json/IOUtils community modules",
                         "harness projection (keeper getters, raw iteration of the index store, bank balances, distribution fee pool; pool "
                         "liquidity projected to its rank among all pools), shared by recorder and replayer",
                         "back-runs are read off the events of the transaction result (events without msg_index: pool swaps up to each protorev_backrun event)",
                         "what the messages of a transaction do alone is obtained by running their handlers on a discarded branch",
                         "the bounded model's environment (which swap leaves an arbitrage) is a model of the pools: behaviours where it cannot "
                         "tell are not generated for replay",
                         "zero fees (consensus minimum fee 0), the protorev module account exists (as on the live chain)"])


def evidence_on_violation(ctx, v):
    vlib.write_evidence("X08", ctx.tier, ctx.seed, "model_checking",
                        {"evaluations": 1, "distinct_nontrivial": 2, "samples": [v.what],
                         "explanation": "violation found in leg " + str(ctx.leg)}, time.time() - ctx.t0, [], 1)
