"""C19 - state is a deterministic function of history and survives export/import.
Specs: spec/Replica.tla (2 replicas + importer over an abstract deterministic application with a volatile
component that any node may lose at any step; with the nondeterminism switch or the stale-memo switch on TLC
must find disagreement), spec/trace/TraceReplica.tla (merged logs of several OS processes executing the same
seeded workload of SIGNED TRANSACTIONS from one genesis file - plain replicas, replicas that re-open their
application over their own database at some blocks, replicas that also run the mempool / proposal handlers -
plus four importers started from the state one of them exported)."""
import glob, json, os, subprocess, time, concurrent.futures
import vlib
from vlib import Infra, Violation, log

MANIFEST = {
    "engine": "tlc+go-harness", "design_ref": "DESIGN.md section 4 (C19)",
    "technique": "TLA+ replica/importer/restart model (Replica.tla) model-checked with two non-vacuity witnesses (hidden nondeterministic bit; stale in-memory memo trusted by a warm node); per-block digests of N OS processes (replicas, restarters, proposers) + 4 importers trace-validated by TLC; differing exported modules classified field by field",
    "text": "A seeded workload (pure data: bank, lockup, gamm balancer + stableswap, poolmanager routes, concentrated liquidity, tokenfactory, incentives gauges, staking delegation, a governance parameter change voted through, x/smart-account authenticators added and removed (newest id out of use at four of five export points), a token-factory fragment (create, mint, force transfers between ordinary accounts, administration handed over); block times crossing hour/day epochs) is executed from one genesis file by several OS processes (fresh Go map seeds, GOMAXPROCS 1..16, GOGC varied). Every operation is a signed sdk transaction (secp256k1 keys, account numbers and sequences read from the node's own committed state, gas limits from ample to exhausted inside the ante handler, fees exactly at the consensus minimum / generous / zero / one unit short / in the whitelisted fee tokens uion and atom / in a non-fee token / beyond the payer's balance, wrong sequences, multi-message transactions some of whose LAST message fails) delivered through FinalizeBlock(Txs) + Commit: ante handlers (x/txfees, x/smart-account circuit breaker, signatures, sequences), messages in ExecModeFinalize and post handlers (x/protorev, x/smart-account) all run. Under-funded accounts and failing trailing messages produce pool creations that fail AFTER their hooks ran; the pool id is then given to a pool of another type and used. Roles: plain replicas; restarters that discard their application object before 3 blocks and re-open a new one over the same database (cold in-memory caches); proposers that push every transaction through CheckTx and every block through PrepareProposal/ProcessProposal first. TLC requires the same signed bytes, bit-identical app hash, per-transaction result digests (code, codespace, gas wanted, gas used, data, events) and block events for every block across all of them, identical module-by-module exports at the export heights and at the end, and - for four importers started by InitChain from the exported state (their transactions signed with the sequences of the imported state) - the same transaction results and events for every later block, identical app hashes among the importers, and module state equal to the exporter's right after import and at the end (field-level differences are classified; re-anchored heights are listed findings). A scripted probe history (a concentrated pool becomes protorev's highest-liquidity pool of its pair, export, then a swap protorev back-runs through it) with two replicas and two importers is validated the same way.",
    "note": "Schedules are sampled (N processes), not enumerated: an iteration-order bug that needs more than N runs to show can be missed. Result logs (error texts) are not compared: only code, codespace, gas, data and events are results. The importer runs with crisis genesis invariants skipped (crisis precedes the osmosis modules in the InitGenesis order, so they cannot pass on any non-trivial genesis). ibc's localhost client height is third-party state that tracks the current height. The two fee-token pools and the permissionless-concentrated-pool switch are written into the genesis-time state by keeper calls, identically on every replica (importers receive them through the export). Listed deviations are validated under their own rule (TraceReplicaKnown.cfg) only after the strict rule of the property (TraceReplica.cfg) rejected a transaction result, and everything they do not explain stays a violation: gas used of a transaction naming the pool id of a reverted creation (warm vs cold node), gas used on an importer vs the exporter, and an importer whose protorev back-runs differ (its import point is then abandoned for the next one). A restart re-opens the application inside the same OS process: package-level Go state survives it (importers, separate processes, are cold in that respect too).",
}
BUILD = [("./app/replica/", "replica")]


def jdiff(x, y, path=""):
    """field-level differences of two canonical JSON values: list of (path-without-indexes, a, b)"""
    out = []
    if type(x) != type(y):
        return [(path, x, y)]
    if isinstance(x, dict):
        for k in sorted(set(x) | set(y)):
            if k not in x or k not in y:
                out.append((path + "/" + k, x.get(k), y.get(k)))
            else:
                out += jdiff(x[k], y[k], path + "/" + k)
    elif isinstance(x, list):
        if len(x) != len(y):
            out.append((path + "[len]", len(x), len(y)))
        else:
            for p, q in zip(x, y):
                out += jdiff(p, q, path + "[]")
    elif x != y:
        out.append((path, x, y))
    return out


def run(ctx):
    q = ctx.quick
    cov = {"samples": []}
    ctx.leg = "mc"
    cfg = "SPECIFICATION Spec\nCONSTANTS\n  Replicas = {1, 2}\n  Importer = 3\n  NBlocks = %d\n  Nondet = %s\n  Stale = %s\nINVARIANTS %s\nCHECK_DEADLOCK FALSE\n"
    both = "Agreement ImportFaithful"
    r = vlib.tlc("MCReplica.tla", "mc.cfg", workers=8, timeout=900, tag="C19-mc", cfg_text=cfg % (5 if q else 7, "FALSE", "FALSE", both))
    vlib.tlc_must_pass(r, "MCReplica")
    w = vlib.tlc("MCReplica.tla", "mc.cfg", workers=4, timeout=900, tag="C19-mcw", cfg_text=cfg % (3, "TRUE", "FALSE", both))
    if w.error or w.violated != "Agreement":
        raise Infra("non-vacuity witness: a nondeterministic step did not break Agreement (%s)" % (w.error or w.violated))
    for inv in ("Agreement", "ImportFaithful"):
        w = vlib.tlc("MCReplica.tla", "mc.cfg", workers=4, timeout=900, tag="C19-mcs", cfg_text=cfg % (3, "FALSE", "TRUE", inv))
        if w.error or w.violated != inv:
            raise Infra("non-vacuity witness: a stale memo trusted by a warm node did not break %s against a restarted / "
                        "importing node (%s)" % (inv, w.error or w.violated))
    log("MC: %d distinct states agree under restarts at any step; with a nondeterministic step, or with a stale memo "
        "influencing a result, TLC finds disagreement (as it must)" % r.distinct)

    binary = vlib.build_test("./app/replica/", "replica")
    d = vlib.scratch("C19-run")
    gen = os.path.join(d, "genesis.json")
    vlib.run_test(binary, "TestGenesis", {"VERIF_GENESIS": gen}, timeout=600)

    ctx.leg = "trace"
    nwl, nblocks, nrep = (4, 80, 5) if q else (12, 160, 8)
    ctx.params = {"workloads": nwl, "blocks": nblocks, "replicas": nrep}
    states = r.distinct
    trans = r.generated
    total_blocks = total_tx = total_ok = 0
    counts = {"ante_failures": 0, "multi_message_txs": 0, "multi_message_reverted_txs": 0, "restarts": 0,
              "txs_naming_pool_id_of_reverted_creation": 0, "txs_backrun_by_protorev": 0}
    stats, rstats, pstats = {}, {}, {}
    roles = ["replica", "replica", "restarter", "proposer", "restarter", "replica", "restarter", "proposer"]
    import_refused = imports_ok = import_dur = import_unsorted = import_diverged = 0
    import random
    rnd = random.Random(ctx.seed)
    def validate(files, what, wseed):
        """Trace-validate the merged logs: first with the rule of the property; if that rejects a transaction result,
        again under the listed deviating rules (TraceReplicaKnown.cfg) - anything they do not explain is a violation.
        Returns (TLC result, listed deviations that occurred)."""
        nonlocal states, trans
        merged = os.path.join(d, "%s.ndjson" % what)
        with open(merged, "w") as g:
            for o in files:
                g.write(open(o).read())
        lines = open(merged).read().split("\n")

        def reject(res, rule):
            ln = res.rejected_line
            ev = lines[ln - 1] if ln and ln <= len(lines) else None
            w = "replicas disagree: " + (res.failed_checks[-1] if res.failed_checks else "recorded line rejected")
            raise Violation("C19", w, {"workload_seed": wseed, "trace": what, "trace_line": ln, "offending_event": ev, "rule": rule,
                                       "failed_checks": res.failed_checks}, "replica:" + w)
        res = vlib.tlc("TraceReplica.tla", "TraceReplica.cfg", workers=1, timeout=1200, env={"TRACE_FILE": merged}, tag="C19-trace", keep=True)
        if res.error:
            raise Infra("TraceReplica: " + res.error)
        states += res.distinct
        trans += res.generated
        if res.ok:
            return res, []
        if not any("transaction results identical" in c for c in res.failed_checks[-1:]):
            reject(res, "TraceReplica.cfg")
        strict = res
        res = vlib.tlc("TraceReplica.tla", "TraceReplicaKnown.cfg", workers=1, timeout=1200, env={"TRACE_FILE": merged}, tag="C19-trace", keep=True)
        if res.error:
            raise Infra("TraceReplica (listed deviations): " + res.error)
        if not res.ok:
            reject(res, "TraceReplicaKnown.cfg")
        devs = sorted(set(p for p in res.prints if "KNOWN-DEV" in p))
        ln = strict.rejected_line
        det = {"workload_seed": wseed, "trace": what, "first_rejected_trace_line": ln,
               "offending_event": lines[ln - 1] if ln and ln <= len(lines) else None}
        for kind, sig, txt in (
                ("import-gas", "import:gas-used:raw-store-layout-not-preserved",
                 "an importer reports a different gas used than the exporter for later transactions (code, data, events equal; "
                 "importers of one export agree among themselves)"),
                ("import-protorev", "import:protorev:highest-liquidity-pools-not-restored:backrun-differs",
                 "the protorev post handler back-runs a transaction on the exporter and not on a node initialised from its "
                 "export (or vice versa): results, events and state differ from there on")):
            hit = [p for p in devs if kind in p]
            if hit:
                ctx.finding(sig, txt, dict(det, deviations=hit[:20]))
                counts["listed_deviation:" + kind] = counts.get("listed_deviation:" + kind, 0) + len(hit)
        return res, devs


    for wi in range(nwl):
        wseed = ctx.seed * 100 + wi
        export_points = sorted(rnd.sample(range(nblocks // 2, nblocks - 5), 3) + [rnd.randrange(12, nblocks // 2)])
        dump = os.path.join(d, "dump%d" % wi)
        outs = []
        # crash points: the first restarter loses its memory right after the scripted failed pool creation (block 2)
        # and at two random blocks, the others at three random blocks
        restart_points = {}
        for i in range(1, nrep + 1):
            if roles[(i - 1) % 8] == "restarter":
                restart_points[i] = sorted(rnd.sample(range(4, nblocks), 2) + [3]) if not restart_points else \
                    sorted(rnd.sample(range(1, nblocks), 3))

        def rep(i):
            out = os.path.join(d, "w%d-r%d.ndjson" % (wi, i))
            env = {"VERIF_GENESIS": gen, "VERIF_OUT": out, "VERIF_SEED": wseed, "VERIF_BLOCKS": nblocks, "VERIF_REPLICA": i,
                   "VERIF_ROLE": roles[(i - 1) % 8], "VERIF_RESTART_AT": ",".join(map(str, restart_points.get(i, []))),
                   "GOMAXPROCS": [1, 16, 2, 4, 8, 3, 16, 1][(i - 1) % 8], "GOGC": [100, 20, 400, 50, 10, 200, 30, 100][(i - 1) % 8]}
            if i == 1:
                env.update({"VERIF_EXPORT_AT": ",".join(map(str, export_points)),
                            "VERIF_EXPORT_FILE": os.path.join(d, "w%d-export.json" % wi), "VERIF_DUMP_DIR": dump})
            elif i == 2:
                env.update({"VERIF_EXPORT_AT": ",".join(map(str, export_points))})
            vlib.run_test(binary, "TestReplica", env, timeout=1500)
            return out
        with concurrent.futures.ThreadPoolExecutor(max_workers=min(nrep, 8)) as ex:
            outs = list(ex.map(rep, range(1, nrep + 1)))

        # what the first replica reached; restarts and role-specific counters of the others
        def add_stats(acc, st):
            for k, v in st.items():
                acc[k] = max(acc.get(k, 0), v) if k.startswith("max") else acc.get(k, 0) + v
        for ln in open(outs[0]):
            e = json.loads(ln)
            if e["e"] == "export" and e.get("final"):
                add_stats(stats, e.get("stats", {}))
            if e["e"] == "block":
                total_blocks += 1
                total_tx += e["ntx"]
                total_ok += e["nok"]
                counts["ante_failures"] += e["nante"]
                counts["multi_message_txs"] += e["nmulti"]
                counts["multi_message_reverted_txs"] += e["nmultirev"]
                counts["txs_naming_pool_id_of_reverted_creation"] += len(e["stale"])
                counts["txs_backrun_by_protorev"] += len(e["backrun"])
                if len(cov["samples"]) < 3 and e["ntx"] > 2:
                    cov["samples"].append({k: e[k] for k in ("blk", "h", "app", "txs", "txb", "ev")})
        for i in range(1, nrep + 1):
            role = roles[(i - 1) % 8]
            for ln in open(outs[i - 1]):
                if role == "restarter" and '"e":"restart"' in ln:
                    counts["restarts"] += 1
                if role != "replica" and '"final":true' in ln:
                    add_stats(rstats if role == "restarter" else pstats, json.loads(ln).get("stats", {}))

        # importers: try the export points in order; an export the fresh node refuses is a finding, and so is an import
        # after which protorev back-runs differently (the importer's history is then its own: take the next point)
        export_at, res = None, None
        for cand in export_points:
            def imp(i, cand=cand):
                out = os.path.join(d, "w%d-i%d-b%d.ndjson" % (wi, i, cand))
                env = {"VERIF_OUT": out, "VERIF_SEED": wseed, "VERIF_BLOCKS": nblocks, "VERIF_REPLICA": 100 + i,
                       "VERIF_IMPORT_FILE": os.path.join(d, "w%d-export.json.%d" % (wi, cand)), "VERIF_DUMP_DIR": dump,
                       "GOMAXPROCS": [16, 1, 4, 2][i % 4], "GOGC": [25, 300, 100, 50][i % 4]}
                vlib.run_test(binary, "TestReplica", env, timeout=1500)
                return out
            with concurrent.futures.ThreadPoolExecutor(max_workers=4) as ex:
                iouts = list(ex.map(imp, [1, 2, 3, 4]))
            failed = [json.loads(l) for o in iouts for l in open(o) if '"importFailed"' in l]
            if failed:
                import re
                err = failed[0]["err"]
                core = re.sub(r"[0-9][0-9.]*", "N", err.split("[recovered]")[0])[:120]
                ctx.finding("import-refused:" + core.strip(), "a fresh node refuses the state exported after block %d: %s" % (cand, err[:300]),
                            {"workload_seed": wseed, "export_after_block": cand, "error": err})
                import_refused += 1
                continue
            res, devs = validate(outs + iouts, "w%d-all-b%d" % (wi, cand), wseed)
            if any("import-protorev" in p for p in devs):
                import_diverged += 1
                continue
            export_at = cand
            for ln in open(outs[0]):
                e = json.loads(ln)
                if e["e"] == "export" and e["blk"] == cand:
                    import_dur = max(import_dur, e.get("stats", {}).get("maxDistinctLockDurationsPerDenom", 0))
                    import_unsorted += e.get("stats", {}).get("maxActiveGaugeRefsOutOfIdOrder", 0)
            break
        if export_at is None:
            log("workload %d: no export point gave importers that stay on the common history (listed findings); replica "
                "agreement still checked" % wi)
            export_at = -1
            if res is None:
                res, devs = validate(outs, "w%d-replicas" % wi, wseed)
            res.prints = []
        else:
            imports_ok += 1
        # module-level differences between importer and exporter -> field-level signatures
        for p in res.prints:
            if "IMPORT-DIFF" not in p:
                continue
            kind = "at-import" if "at-import" in p else "final"
            mods = sorted(set(json.loads("[" + p[p.index("{") + 1:p.rindex("}")] + "]"))) if "{" in p and p[p.index("{") + 1:p.rindex("}")].strip() else []
            for m in mods:
                if kind == "at-import":
                    a = glob.glob(os.path.join(dump, "export-r1-b%d.%s.json" % (export_at, m)))
                    b = glob.glob(os.path.join(dump, "imported-r10*-b%d.%s.json" % (export_at, m)))
                else:
                    a = glob.glob(os.path.join(dump, "export-r1-b%d.%s.json" % (nblocks - 1, m)))
                    b = glob.glob(os.path.join(dump, "export-r10*-b%d.%s.json" % (nblocks - 1, m)))
                if not a or not b:
                    ctx.finding("import:%s:module-missing" % m, "module %s missing on one side of export/import" % m, {})
                    continue
                for path, x, y in jdiff(json.load(open(a[0])), json.load(open(b[0]))):
                    sig = "import:%s:%s" % (m, path)
                    ctx.finding(sig, "after export/import module %s reports a different %s (exporter %s, importer %s; %s)"
                                % (m, path, json.dumps(x)[:80], json.dumps(y)[:80], kind),
                                {"workload_seed": wseed, "export_at_block": export_at, "module": m, "path": path, "kind": kind})
        log("workload %d (seed %d, %d blocks, import after block %d): %d full replicas (%s) + 4 importers agree"
            % (wi, wseed, nblocks, export_at, nrep, ", ".join(roles[(i - 1) % 8] for i in range(1, nrep + 1))))
    # scripted probe of the export/import leg: protorev's highest-liquidity pool of a pair is a concentrated pool, the state
    # is exported, and the next block holds a swap protorev back-runs through that pool (listed finding while the importer
    # does not restore the index; the strict rule applies to everything else in the probe)
    ctx.leg = "probe"

    def probe_run(i, imp):
        out = os.path.join(d, "probe-%s%d.ndjson" % ("i" if imp else "r", i))
        env = {"VERIF_WORKLOAD": "protorev-import", "VERIF_OUT": out, "VERIF_SEED": 0, "VERIF_BLOCKS": 5, "VERIF_REPLICA": (100 if imp else 0) + i}
        if imp:
            env["VERIF_IMPORT_FILE"] = os.path.join(d, "probe-export.json.2")
        else:
            env.update({"VERIF_GENESIS": gen, "VERIF_EXPORT_AT": "2", "VERIF_EXPORT_FILE": os.path.join(d, "probe-export.json")})
        vlib.run_test(binary, "TestReplica", env, timeout=600)
        return out
    pouts = [probe_run(1, False), probe_run(2, False)]
    with concurrent.futures.ThreadPoolExecutor(max_workers=2) as ex:
        pouts += list(ex.map(lambda i: probe_run(i, True), [1, 2]))
    if not any('"backrun":[1]' in l for l in open(pouts[0])):
        raise Infra("the protorev import probe did not produce a back-run on the exporter: the probe is vacuous")
    validate(pouts, "probe-protorev-import", 0)
    ctx.leg = "trace"
    for need in ("lockGaugesThatPaid", "clPositions", "locks", "pools", "factoryDenoms", "epoch:day",
                 "anteFailures", "feesPaidInFeeToken", "outOfGasInMessages", "failedPoolCreations", "failedThenSucceededPoolIds",
                 "opsOnFailedThenSucceededPools", "poolCreationFeeChangedByGovernance", "authenticatorsAdded", "authenticatorsRemoved", "factoryForceTransfers", "factoryAdminsChanged"):
        if stats.get(need, 0) == 0:
            raise Infra("workloads never reached '%s': the determinism check would be vacuous there" % need)
    for need in ("ante_failures", "multi_message_reverted_txs", "restarts", "txs_naming_pool_id_of_reverted_creation"):
        if counts.get(need, 0) == 0:
            raise Infra("workloads never produced '%s': the determinism check would be vacuous there" % need)
    if rstats.get("restartsAfterFailedCreation", 0) == 0:
        raise Infra("no replica restarted after a pool creation that failed after its hooks: in-memory state that survives a "
                    "reverted transaction was never compared with a cold node")
    if pstats.get("proposalsPrepared", 0) == 0 or pstats.get("checkTxOk", 0) == 0:
        raise Infra("the proposer role never got a transaction through CheckTx / a block through PrepareProposal")
    if import_dur < 11:
        raise Infra("no import happened at a state with more than 10 distinct lock durations on one denom (max %d): "
                    "the rebuilt accumulation trees never split" % import_dur)
    if import_unsorted == 0:
        raise Infra("no import happened at a state whose active gauge references are out of id order: an import that "
                    "re-orders reference lists would go unnoticed")
    cov["imports_at_states_with_gauge_refs_out_of_id_order"] = import_unsorted
    cov["max_distinct_lock_durations_at_an_import"] = import_dur
    cov["reached"] = stats
    if imports_ok == 0:
        raise Infra("no export could be imported in any workload: the import leg did not run")
    cov["imports_ok"], cov["imports_refused"], cov["imports_left_common_history_by_listed_protorev_deviation"] = imports_ok, import_refused, import_diverged
    if total_ok < 10 * nwl:
        raise Infra("workloads execute too few successful transactions (%d)" % total_ok)
    cov.update(counts)
    cov.update({"states": states, "transitions": trans, "traces_validated_against_impl": nwl * (nrep + 4) + 4,
                "workloads": nwl, "blocks_per_workload": nblocks, "os_processes": nwl * (nrep + 4) + 4,
                "transactions": total_tx, "transactions_ok": total_ok, "blocks": total_blocks,
                "roles_per_workload": [roles[(i - 1) % 8] for i in range(1, nrep + 1)] + ["importer"] * 4,
                "failed_pool_creations": stats.get("failedPoolCreations", 0),
                "failed_then_succeeded_pool_ids": stats.get("failedThenSucceededPoolIds", 0),
                "ops_on_failed_then_succeeded_pools": stats.get("opsOnFailedThenSucceededPools", 0),
                "fees_paid_in_fee_token": stats.get("feesPaidInFeeToken", 0),
                "restarts_after_a_failed_creation": rstats.get("restartsAfterFailedCreation", 0),
                "proposer": {k: pstats.get(k, 0) for k in ("checkTxOk", "checkTxRefused", "proposalsPrepared", "proposalTxs",
                                                            "proposalsAccepted", "proposalPanics")},
                "known_finding_hits": dict(ctx.known_hit),
                "checker_cmd": "bin/check C19 --tier " + ctx.tier})
    vlib.write_evidence("C19", ctx.tier, ctx.seed, "model_checking", cov, time.time() - ctx.t0,
                        ["TLC", "each replica is a separate OS process (own Go map seeds); schedules sampled, not enumerated",
                         "every operation is a signed transaction delivered through FinalizeBlock(Txs) + Commit (ante and post handlers run); result logs are not compared",
                         "crash points are sampled (3 per restarter); a restart re-opens the application over the same in-memory database object",
                         "importer started with crisis genesis invariants skipped"])


def evidence_on_violation(ctx, v):
    vlib.write_evidence("C19", ctx.tier, ctx.seed, "model_checking",
                        {"evaluations": 1, "distinct_nontrivial": 2, "samples": [v.what]}, time.time() - ctx.t0, [], 1)
