"""C19 - state is a deterministic function of history and survives export/import.
Specs: spec/Replica.tla (2 replicas + importer over an abstract deterministic application; with the
nondeterminism switch on TLC must find disagreement), spec/trace/TraceReplica.tla (merged logs of
several OS processes executing the same seeded workload from one genesis file, plus two importers
started from the state one of them exported)."""
import glob, json, os, subprocess, time, concurrent.futures
import vlib
from vlib import Infra, Violation, log

MANIFEST = {
    "engine": "tlc+go-harness", "design_ref": "DESIGN.md section 4 (C19)",
    "technique": "TLA+ replica/importer model (Replica.tla) model-checked with a nondeterminism witness; per-block digests of N OS processes + 2 importers trace-validated by TLC; differing exported modules classified field by field",
    "text": "A seeded workload (pure data: bank, lockup, gamm, poolmanager routes, concentrated liquidity, tokenfactory, incentives gauges; block times crossing hour/day epochs) is executed from one genesis file by several OS processes (fresh Go map seeds, GOMAXPROCS 1..16, GOGC varied): messages through the MsgServiceRouter like DeliverTx, then FinalizeBlock (begin/end blockers, epochs, twap, mint, distributions) and Commit. TLC requires bit-identical app hash, per-transaction result digests (data + events or error text) and block events for every block across replicas, identical module-by-module exports at the export height and at the end, and - for two importers started by InitChain from the exported state - the same transaction results and events for every later block, identical app hashes between the two importers, and module state equal to the exporter's right after import and at the end (field-level differences are classified; re-anchored heights are listed findings).",
    "note": "Schedules are sampled (N processes), not enumerated: an iteration-order bug that needs more than N runs to show can be missed. Ante handlers/signatures are outside this path and outside the property. The importer runs with crisis genesis invariants skipped (crisis precedes the osmosis modules in the InitGenesis order, so they cannot pass on any non-trivial genesis). ibc's localhost client height is third-party state that tracks the current height.",
}
BUILD = [("./app/replica/", "replica")]


def jdiff(x, y, path=""):
    """field-level differences of two canonical JSON values: list of (path-without-indexes, a, b)"""
    out = []
    if type(x) != type(y):
        return [(path, x, y)]
    if isinstance(x, dict):
        for k in sorted(set(x) | set(y)):
            if k not in x or k not in y:
                out.append((path + "/" + k, x.get(k), y.get(k)))
            else:
                out += jdiff(x[k], y[k], path + "/" + k)
    elif isinstance(x, list):
        if len(x) != len(y):
            out.append((path + "[len]", len(x), len(y)))
        else:
            for p, q in zip(x, y):
                out += jdiff(p, q, path + "[]")
    elif x != y:
        out.append((path, x, y))
    return out


def run(ctx):
    q = ctx.quick
    cov = {"samples": []}
    ctx.leg = "mc"
    cfg = "SPECIFICATION Spec\nCONSTANTS\n  Replicas = {1, 2}\n  Importer = 3\n  NBlocks = %d\n  Nondet = %s\nINVARIANTS Agreement ImportFaithful\nCHECK_DEADLOCK FALSE\n"
    r = vlib.tlc("MCReplica.tla", "mc.cfg", workers=8, timeout=900, tag="C19-mc", cfg_text=cfg % (5 if q else 7, "FALSE"))
    vlib.tlc_must_pass(r, "MCReplica")
    w = vlib.tlc("MCReplica.tla", "mc.cfg", workers=4, timeout=900, tag="C19-mcw", cfg_text=cfg % (3, "TRUE"))
    if w.error or w.violated != "Agreement":
        raise Infra("non-vacuity witness: a nondeterministic step did not break Agreement (%s)" % (w.error or w.violated))
    log("MC: %d distinct states agree; with a nondeterministic step TLC finds disagreement (as it must)" % r.distinct)

    binary = vlib.build_test("./app/replica/", "replica")
    d = vlib.scratch("C19-run")
    gen = os.path.join(d, "genesis.json")
    vlib.run_test(binary, "TestGenesis", {"VERIF_GENESIS": gen}, timeout=600)

    ctx.leg = "trace"
    nwl, nblocks, nrep = (4, 80, 5) if q else (12, 160, 8)
    ctx.params = {"workloads": nwl, "blocks": nblocks, "replicas": nrep}
    states = r.distinct
    trans = r.generated
    total_blocks = total_tx = total_ok = 0
    stats = {}
    import_refused = imports_ok = import_dur = import_unsorted = 0
    import random
    rnd = random.Random(ctx.seed)
    for wi in range(nwl):
        wseed = ctx.seed * 100 + wi
        export_points = sorted(rnd.sample(range(nblocks // 2, nblocks - 5), 3) + [rnd.randrange(12, nblocks // 2)])
        dump = os.path.join(d, "dump%d" % wi)
        outs = []

        def rep(i):
            out = os.path.join(d, "w%d-r%d.ndjson" % (wi, i))
            env = {"VERIF_GENESIS": gen, "VERIF_OUT": out, "VERIF_SEED": wseed, "VERIF_BLOCKS": nblocks, "VERIF_REPLICA": i,
                   "GOMAXPROCS": [1, 16, 2, 4, 8, 3, 16, 1][(i - 1) % 8], "GOGC": [100, 20, 400, 50, 10, 200, 30, 100][(i - 1) % 8]}
            if i == 1:
                env.update({"VERIF_EXPORT_AT": ",".join(map(str, export_points)),
                            "VERIF_EXPORT_FILE": os.path.join(d, "w%d-export.json" % wi), "VERIF_DUMP_DIR": dump})
            elif i == 2:
                env.update({"VERIF_EXPORT_AT": ",".join(map(str, export_points))})
            vlib.run_test(binary, "TestReplica", env, timeout=1500)
            return out
        with concurrent.futures.ThreadPoolExecutor(max_workers=min(nrep, 8)) as ex:
            outs = list(ex.map(rep, range(1, nrep + 1)))

        # importers: try the export points in order; an export the fresh node refuses is a finding
        export_at = None
        for cand in export_points:
            def imp(i, cand=cand):
                out = os.path.join(d, "w%d-i%d-b%d.ndjson" % (wi, i, cand))
                env = {"VERIF_OUT": out, "VERIF_SEED": wseed, "VERIF_BLOCKS": nblocks, "VERIF_REPLICA": 100 + i,
                       "VERIF_IMPORT_FILE": os.path.join(d, "w%d-export.json.%d" % (wi, cand)), "VERIF_DUMP_DIR": dump,
                       "GOMAXPROCS": [16, 1, 4, 2][i % 4], "GOGC": [25, 300, 100, 50][i % 4]}
                vlib.run_test(binary, "TestReplica", env, timeout=1500)
                return out
            with concurrent.futures.ThreadPoolExecutor(max_workers=4) as ex:
                iouts = list(ex.map(imp, [1, 2, 3, 4]))
            failed = [json.loads(l) for o in iouts for l in open(o) if '"importFailed"' in l]
            if failed:
                import re
                err = failed[0]["err"]
                mod = re.search(r"x/([a-z-]+)", err)
                core = re.sub(r"[0-9][0-9.]*", "N", err.split("[recovered]")[0])[:120]
                ctx.finding("import-refused:" + core.strip(), "a fresh node refuses the state exported after block %d: %s" % (cand, err[:300]),
                            {"workload_seed": wseed, "export_after_block": cand, "error": err})
                import_refused += 1
                continue
            export_at = cand
            outs += iouts
            for ln in open(outs[0]):
                e = json.loads(ln)
                if e["e"] == "export" and e["blk"] == cand:
                    import_dur = max(import_dur, e.get("stats", {}).get("maxDistinctLockDurationsPerDenom", 0))
                    import_unsorted += e.get("stats", {}).get("maxActiveGaugeRefsOutOfIdOrder", 0)
            break
        if export_at is None:
            log("workload %d: every export point was refused by the importer (listed finding); replica agreement still checked" % wi)
            export_at = -1
        else:
            imports_ok += 1
        merged = os.path.join(d, "w%d-all.ndjson" % wi)
        with open(merged, "w") as g:
            for o in outs:
                g.write(open(o).read())
        for ln in open(outs[0]):
            e = json.loads(ln)
            if e["e"] == "export" and e.get("final"):
                for k, v in e.get("stats", {}).items():
                    stats[k] = max(stats.get(k, 0), v) if k.startswith("max") else stats.get(k, 0) + v
            if e["e"] == "block":
                total_blocks += 1
                total_tx += e["ntx"]
                total_ok += e["nok"]
                if len(cov["samples"]) < 3 and e["ntx"] > 2:
                    cov["samples"].append({k: e[k] for k in ("blk", "h", "app", "txs", "ev")})
        res = vlib.tlc("TraceReplica.tla", "TraceReplica.cfg", workers=1, timeout=1200, env={"TRACE_FILE": merged}, tag="C19-trace", keep=True)
        if res.error:
            raise Infra("TraceReplica: " + res.error)
        states += res.distinct
        trans += res.generated
        if not res.ok:
            ln = res.rejected_line
            lines = open(merged).read().split("\n")
            ev = lines[ln - 1] if ln and ln <= len(lines) else None
            what = "replicas disagree: " + (res.failed_checks[-1] if res.failed_checks else "recorded line rejected")
            raise Violation("C19", what, {"workload_seed": wseed, "trace_line": ln, "offending_event": ev,
                                          "failed_checks": res.failed_checks}, "replica:" + what)
        # module-level differences between importer and exporter -> field-level signatures
        for p in res.prints:
            if "IMPORT-DIFF" not in p:
                continue
            kind = "at-import" if "at-import" in p else "final"
            mods = sorted(set(json.loads("[" + p[p.index("{") + 1:p.rindex("}")] + "]"))) if "{" in p and p[p.index("{") + 1:p.rindex("}")].strip() else []
            for m in mods:
                if kind == "at-import":
                    a = glob.glob(os.path.join(dump, "export-r1-b%d.%s.json" % (export_at, m)))
                    b = glob.glob(os.path.join(dump, "imported-r10*-b%d.%s.json" % (export_at, m)))
                else:
                    a = glob.glob(os.path.join(dump, "export-r1-b%d.%s.json" % (nblocks - 1, m)))
                    b = glob.glob(os.path.join(dump, "export-r10*-b%d.%s.json" % (nblocks - 1, m)))
                if not a or not b:
                    ctx.finding("import:%s:module-missing" % m, "module %s missing on one side of export/import" % m, {})
                    continue
                for path, x, y in jdiff(json.load(open(a[0])), json.load(open(b[0]))):
                    sig = "import:%s:%s" % (m, path)
                    ctx.finding(sig, "after export/import module %s reports a different %s (exporter %s, importer %s; %s)"
                                % (m, path, json.dumps(x)[:80], json.dumps(y)[:80], kind),
                                {"workload_seed": wseed, "export_at_block": export_at, "module": m, "path": path, "kind": kind})
        log("workload %d (seed %d, %d blocks, import after block %d): %d replicas + 4 importers agree" % (wi, wseed, nblocks, export_at, nrep))
    for need in ("lockGaugesThatPaid", "clPositions", "locks", "pools", "factoryDenoms", "epoch:day"):
        if stats.get(need, 0) == 0:
            raise Infra("workloads never reached '%s': the determinism check would be vacuous there" % need)
    if import_dur < 11:
        raise Infra("no import happened at a state with more than 10 distinct lock durations on one denom (max %d): "
                    "the rebuilt accumulation trees never split" % import_dur)
    if import_unsorted == 0:
        raise Infra("no import happened at a state whose active gauge references are out of id order: an import that "
                    "re-orders reference lists would go unnoticed")
    cov["imports_at_states_with_gauge_refs_out_of_id_order"] = import_unsorted
    cov["max_distinct_lock_durations_at_an_import"] = import_dur
    cov["reached"] = stats
    if imports_ok == 0:
        raise Infra("no export could be imported in any workload: the import leg did not run")
    cov["imports_ok"], cov["imports_refused"] = imports_ok, import_refused
    if total_ok < 10 * nwl:
        raise Infra("workloads execute too few successful transactions (%d)" % total_ok)
    cov.update({"states": states, "transitions": trans, "traces_validated_against_impl": nwl * (nrep + 4),
                "workloads": nwl, "blocks_per_workload": nblocks, "os_processes": nwl * (nrep + 4),
                "transactions": total_tx, "transactions_ok": total_ok, "known_finding_hits": dict(ctx.known_hit),
                "checker_cmd": "bin/check C19 --tier " + ctx.tier})
    vlib.write_evidence("C19", ctx.tier, ctx.seed, "model_checking", cov, time.time() - ctx.t0,
                        ["TLC", "each replica is a separate OS process (own Go map seeds); schedules sampled, not enumerated",
                         "messages run through the MsgServiceRouter on a branch, then FinalizeBlock + Commit; ante handlers outside the path",
                         "importer started with crisis genesis invariants skipped"])


def evidence_on_violation(ctx, v):
    vlib.write_evidence("C19", ctx.tier, ctx.seed, "model_checking",
                        {"evaluations": 1, "distinct_nontrivial": 2, "samples": [v.what]}, time.time() - ctx.t0, [], 1)
