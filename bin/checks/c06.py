"""C06 - lockup: locked funds are safe, time-locked and exactly indexed.
Spec: spec/Lockup.tla (lock records, balances, module account, the reference index and the
accumulation store as variables).  Legs: exhaustive TLC (MCLockup), spec->impl replay of the
prefix tree of one behaviour per distinct (state, last action) of a bounded model on the real msg
server / keeper (every refused near miss tried as well), impl->spec validation of recorded random
histories with the raw index, accumulation probes and a query battery after every call."""
import concurrent.futures, json, os, re, time
import vlib
from vlib import Infra, Violation, log

TRUST = ("Trusted: TLC evaluator, Json/IOUtils community modules, harness projection functions "
         "(shared by both binding directions), go -overlay.")
MANIFEST = {
    "engine": "tlc+go-harness", "design_ref": "DESIGN.md section 4 (C06)",
    "technique": "TLA+ spec Lockup.tla with the reference index and the accumulation store as variables; TLC exhaustive MC; "
                 "TLC-generated behaviours replayed as a prefix tree on the real msg server/keeper of the full app; "
                 "recorded random histories (raw index keys, accumulation probes, 23 query shapes after every call) trace-validated by TLC",
    "text": "Lockup.tla models MsgLockTokens (create / add to the owner's lock of the same denom and duration), AddTokensToLockByID, "
            "MsgBeginUnlocking whole and partial (split), MsgBeginUnlockingAll, UnlockMaturedLock, WithdrawMaturedLocks / EndBlocker sweep, "
            "MsgExtendLockup, MsgSetRewardReceiverAddress, MsgForceUnlock and time, with refs/accum updated as lock.go does. TLC checks "
            "module account = sum of live locks, accumulation exact for every duration, refs = derived index, index scans = filters, "
            "time lock, fixed schedule, owner-only return and conservation exhaustively (2 owners x 2 denoms x durations 1-3 x amounts 1-2, "
            "<=4 locks, depth 4 quick / 5 thorough). One behaviour per distinct (state, last action) of a bounded model is executed on the "
            "real app (nested store branches) and lock records, balances, module account, raw reference keys, accumulation answers are compared "
            "after every action; every near miss the spec refuses must be refused. Random histories (4 owners, 5 denoms incl. a prefix pair and two path-like denominations nested under another (aaa, aaa/zz, aaa/a); every third history scaled - amounts are multiples of 2^61 / 10^18 / 2^64+1 / 10^16 logged in units -, "
            "5 durations, 250-300 calls, up to ~35 live locks, partial unlocks, sweeps landing exactly on end times) are validated line by line.",
    "note": TRUST + " Transactions emulated like baseapp (ValidateBasic, cache context + recover). Query boundaries (strict 'after', "
            "inclusive 'before'/'longer') are the documented ones of iterator.go. MsgForceUnlock is modelled as the stated administrative exception "
            "to the time lock. Synthetic locks are out of scope here (C11).",
}
BUILD = [("./app/lockup/", "lockup")]

MC_CFG = """SPECIFICATION MCSpec
CONSTANTS
  MOwners = {"o1", "o2"}
  MDenoms = {"daa", "dbb"}
  Durs = {%(durs)s}
  Amts = {%(amts)s}
  Fund = %(fund)d
  MaxLocks = %(maxlocks)d
  MaxT = %(maxt)d
  MaxSteps = %(steps)d
  Dts = {%(dts)s}
  Allowed = {"o2"}
VIEW %(view)s
%(inv)s
CHECK_DEADLOCK FALSE
"""
INV = "TypeOK ModuleHoldsLocked AccumExact RefsExact EndAfterDuration RefusalsAreRefused"
ACT = "PROPERTIES TimeLocked ScheduleFixed Conserved"
ACTIONS = ("lock", "add", "begin", "beginall", "unlock", "withdraw", "extend", "setrr", "force", "advance")


def mc_cfg(durs="1, 2, 3", amts="1, 2", fund=3, maxlocks=4, maxt=6, steps=4, dts="1, 2", view="View", inv=""):
    return MC_CFG % dict(durs=durs, amts=amts, fund=fund, maxlocks=maxlocks, maxt=maxt, steps=steps, dts=dts, view=view, inv=inv)


def summarise(ev):
    """one recorded line without the bulky observation fields"""
    try:
        e = json.loads(ev)
    except Exception:
        return str(ev)[:400]
    return {k: e[k] for k in ("e", "a", "o", "d", "x", "amt", "id", "r", "via", "ok", "panicked", "err", "rid") if k in e}


def mismatches_of(tlc_out, limit=6):
    res = []
    try:
        txt = open(tlc_out, errors="replace").read()
    except OSError:
        return res
    for m in re.finditer(r'<<"MISMATCH",.*?>>\n(?=\S)', txt, re.S):
        res.append(re.sub(r"\s+", " ", m.group(0))[:1500])
        if len(res) >= limit:
            break
    return res


def run(ctx):
    q = ctx.quick
    cov = {"samples": []}
    # VERIF_C06_LEGS=mc,replay,trace (development / selftest convenience; default: all)
    legs = set((os.environ.get("VERIF_C06_LEGS") or "mc,replay,trace").split(","))
    # ------------------------------------------------------------------ 1. design: exhaustive model checking
    ctx.leg = "mc"
    allp = "INVARIANTS " + INV + "\n" + ACT
    runs = [("durations 1-3, amounts 1-2, depth 4: all invariants and step properties", mc_cfg(steps=4, inv=allp))]
    if q:
        runs += [("durations 1-3, depth 3: index scans = filters", mc_cfg(steps=3, inv="INVARIANTS RefsExact ScansAgreeMC"))]
    else:
        runs += [("durations 1-2, amounts 1-2, depth 5: all invariants and step properties", mc_cfg(durs="1, 2", steps=5, inv=allp)),
                 ("durations 1-2, amount 2, 3 locks, depth 6: all invariants and step properties",
                  mc_cfg(durs="1, 2", amts="2", maxlocks=3, fund=4, steps=6, inv=allp)),
                 ("durations 1-2, depth 4: index scans = filters", mc_cfg(durs="1, 2", steps=4, inv="INVARIANTS RefsExact ScansAgreeMC"))]
    if "mc" not in legs:
        runs = []
    states = trans = 0
    cov["mc_runs"] = []
    for name, cfg in runs:
        r = vlib.tlc("MCLockup.tla", "mc.cfg", workers=vlib.NCPU, timeout=3000, heap="14g", tag="C06-mc", cfg_text=cfg)
        vlib.tlc_must_pass(r, "MCLockup " + name)
        states += r.distinct
        trans += r.generated
        cov["mc_runs"].append({"run": name, "distinct": r.distinct, "generated": r.generated, "wall_s": round(r.wall, 1)})
        log("MC %s: %d distinct / %d generated, %.0fs" % (name, r.distinct, r.generated, r.wall))
    cov["mc_states"], cov["mc_transitions"] = states, trans

    binary = vlib.build_test("./app/lockup/", "lockup")

    # ------------------------------------------------------------------ 2. spec -> impl: prefix tree of behaviours on the real app
    ctx.leg = "replay"
    if q:
        gens = [("durations 1-2, depth 4", dict(durs="1, 2", steps=4))]
    else:
        gens = [("durations 1-3, depth 4", dict(steps=4)),
                ("durations 1-2, amounts 2, 3 locks, depth 6", dict(durs="1, 2", amts="2", steps=6, maxlocks=3, fund=4))]
    replayed = steps = refusals = 0
    kinds = {}
    nshards = min(vlib.NCPU, 12)
    if "replay" not in legs:
        gens = []
    for name, kw in gens:
        r = vlib.tlc("MCLockup.tla", "gen.cfg", workers=min(vlib.NCPU, 8), timeout=3000, heap="14g", tag="C06-gen", keep=True,
                     cfg_text=mc_cfg(view="GenView", inv="INVARIANTS Emit", **kw))
        vlib.tlc_must_pass(r, "MCLockup generator " + name)
        d = os.path.dirname(r.out)
        gen = os.path.join(d, "gen.jsonl")
        n = vlib.extract_gen(r.out, gen)
        os.remove(r.out)
        if n == 0:
            raise Infra("generator produced no behaviours")
        log("generated %d behaviours (%s) in %.0fs" % (n, name, r.wall))

        def shard(i):
            outp = "%s.result%d" % (gen, i)
            vlib.run_test(binary, "TestReplay", {"VERIF_IN": gen, "VERIF_OUT": outp, "VERIF_SHARD": "%d/%d" % (i, nshards)}, timeout=2400)
            return json.load(open(outp))
        t1 = time.time()
        with concurrent.futures.ThreadPoolExecutor(max_workers=nshards) as ex:
            results = list(ex.map(shard, range(nshards)))
        mm = []
        for res in results:
            steps += res["steps"]
            refusals += res["refusals"]
            for k, v in res["kinds"].items():
                kinds[k] = kinds.get(k, 0) + v
            mm += res.get("mismatches") or []
        replayed += n
        if not cov["samples"]:
            with open(gen) as f:
                for i, ln in enumerate(f):
                    if i == min(2000, n - 1):
                        cov["samples"].append({"spec_behaviour": json.loads(ln)})
                        break
        log("replayed %d spec behaviours of '%s' on the real app in %.0fs: %d mismatches" % (n, name, time.time() - t1, len(mm)))
        if mm:
            m = mm[0]
            raise Violation("C06", "real lockup module deviates from the specification on a generated behaviour: %s (want %s, got %s) after %s"
                            % (m["what"], json.dumps(m["want"])[:300], json.dumps(m["got"])[:300], json.dumps(m["path"])[:400]),
                            {"mismatch": m, "more": mm[1:5], "generator": name}, "replay:" + m["what"].split(" ")[0])
        states += r.distinct
        trans += r.generated
    for need in ACTIONS if gens else ():
        if kinds.get(need, 0) == 0:
            raise Infra("no generated behaviour ends with a %s action: the replay does not exercise it" % need)
    if gens and refusals == 0:
        raise Infra("no refused call was tried")
    if "trace" not in legs:
        log("legs %s only: no evidence written" % sorted(legs))
        return

    # ------------------------------------------------------------------ 3. impl -> spec: recorded random histories
    ctx.leg = "trace"
    nh, nops, nrec = (16, 250, 2) if q else (192, 300, 8)
    ctx.params = {"histories": nh, "ops": nops}
    d = vlib.scratch("C06-rec")
    trace = os.path.join(d, "lockup.ndjson")

    def record(i):
        p = "%s.%d" % (trace, i)
        out = vlib.run_test(binary, "TestRecord", {"VERIF_OUT": p, "VERIF_SEED": int(ctx.seed) * 1000 + i,
                                                   "VERIF_HISTORIES": nh // nrec, "VERIF_OPS": nops}, timeout=2400)
        m = re.search(r"counts=(\{.*\})", out)
        return p, json.loads(m.group(1)) if m else {}
    t1 = time.time()
    with concurrent.futures.ThreadPoolExecutor(max_workers=nrec) as ex:
        recs = list(ex.map(record, range(nrec)))
    counts = {}
    with open(trace, "w") as f:
        for p, c in recs:
            with open(p) as g:
                for ln in g:
                    f.write(ln)
            os.remove(p)
            for k, v in c.items():
                counts[k] = counts.get(k, 0) + v
    log("recorded %d histories x %d calls from the real app in %.0fs" % (nh, nops, time.time() - t1))
    for need in ACTIONS + ("history:scaled", "begin:split", "lock:refused", "begin:refused", "extend:refused", "unlock:refused", "add:refused", "force:refused"):
        if counts.get(need, 0) == 0:
            raise Infra("recorder produced no %s events: driver is not exercising the property" % need)
    if counts.get("withdraw:refused", 0):
        pass  # a failing sweep is rejected by the trace spec itself
    with open(trace) as f:
        for i, ln in enumerate(f):
            if i in (1, 2):
                e = json.loads(ln)
                e["q"] = e["q"][:4]
                e["acc"] = e["acc"][:6]
                cov["samples"].append({"trace_event": e})
            if i > 2:
                break
    try:
        gen_, dist_, nlines = vlib.validate_trace("C06", "TraceLockup.tla", "TraceLockup.cfg", trace, timeout=2400,
                                                  heap="3g" if q else "4g")
    except Violation as v:
        det = v.detail
        ms = mismatches_of(det.get("tlc_output", ""))
        ev = summarise(det.get("offending_event") or "{}")
        det["call"] = ev
        det["mismatch"] = ms
        det["offending_event"] = json.dumps(ev)
        det["history_prefix"] = [json.dumps(summarise(x)) for x in det.get("history_prefix", [])]
        what = v.what + " after " + json.dumps(ev) + ((": " + ms[0][:600]) if ms else "")
        sig = "trace:%s:%s" % (det.get("violated") or "step", ev.get("a") if isinstance(ev, dict) else "?")
        raise Violation("C06", what, det, sig)
    log("validated %d recorded events of %d histories against TraceLockup" % (nlines, nh))
    cov.update({"states": states + dist_, "transitions": trans + gen_,
                "traces_validated_against_impl": nh + replayed,
                "recorded_histories": nh, "recorded_events": nlines, "event_kinds": counts,
                "spec_behaviours_replayed": replayed, "actions_replayed": steps, "refused_calls_tried": refusals,
                "replayed_last_action_kinds": kinds,
                "checker_cmd": "bin/check C06 --tier " + ctx.tier})
    vlib.write_evidence("C06", ctx.tier, ctx.seed, "model_checking", cov, time.time() - ctx.t0,
                        ["TLC evaluator; Json/IOUtils community modules",
                         "harness projection: lock records read by id from the primary store, bank balances, raw reference keys decoded from the lockup KV store (shared by both binding directions)",
                         "transactions emulated as baseapp does: ValidateBasic, cache context written only on success, panics recovered",
                         "query boundary conventions (strict after-time, inclusive before-time / longer-duration) taken from iterator.go's documentation",
                         "MsgForceUnlock (governance-listed owners) is the stated exception to the time lock; synthetic locks are not driven here (C11)"])


def evidence_on_violation(ctx, v):
    vlib.write_evidence("C06", ctx.tier, ctx.seed, "model_checking",
                        {"evaluations": 1, "distinct_nontrivial": 2, "samples": [v.what[:2000]],
                         "explanation": "violation found in leg " + str(ctx.leg)}, time.time() - ctx.t0, [], 1)
