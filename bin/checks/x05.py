"""X05 (extra) - x/smart-account: authenticator registry, composition of authenticators, ante/post lifecycle.
Spec: spec/SmartAccount.tla (properties P1..P12 in its header).  Legs:
  mc      exhaustive TLC of the bounded model MCSmartAccount: "life" (registry / circuit breaker / transaction
          phases over ten well-formed and malformed trees, every operation of the alphabet in every reachable
          state) and "sem" (every tree shape up to three leaves with every verdict assignment), all properties,
          per-action coverage
  replay  one behaviour per distinct (state, last operation) of both models, executed on the real code: message
          server, gRPC queries, genesis round trip, and real signed transactions run through baseapp's
          ante -> messages -> post pipeline; result, calls seen by the probe leaves (with composite ids) and
          projected state compared after every operation; the "sem" behaviours a second time with the
          repository's own SpyAuthenticator as leaves
  trace   seeded random histories recorded from the real code as ndjson and validated line by line by TLC against
          TraceSmartAccount (every property as invariant / action property, also inside transactions)
Two narrowly defined deviations of the unchanged tree are reported as findings (docs/findings_x05.json):
ConfirmExecution is called after a failed execution; a transaction whose payer is authenticated and whose
later message is refused keeps the fee without consuming a sequence number (the same bytes can be charged
again).  Anything else that deviates is a violation."""
import concurrent.futures, json, os, re, time
import vlib
from vlib import Infra, Violation, log

PROP = "X05"
TRUST = ("Trusted: TLC evaluator, Json/IOUtils community modules, the harness (probe leaf authenticator, transaction "
         "builder, projection through the module's own getters - shared by both binding directions), go -overlay.")
MANIFEST = {
    "engine": "tlc+go-harness", "design_ref": "docs/extra_x05.md; spec/SmartAccount.tla header",
    "technique": "TLA+ spec SmartAccount.tla; TLC exhaustive MC; TLC-generated behaviours replayed on the real module and "
                 "baseapp pipeline; recorded random histories trace-validated by TLC",
    "text": "SmartAccount.tla states what a user of x/smart-account relies on: owner-only registry changes, ids strictly "
            "increasing and never reused, registry = adds - removes, validation of malformed trees, circuit breaker, "
            "AllOf/AnyOf as left-to-right short-circuit tree evaluation with composite ids a.i, Authenticate pure, Track "
            "only after all messages authenticated and never reverted, ConfirmExecution only after successful execution and "
            "a rejection discards execution writes (AnyOf keeps only the confirming child's writes), selection only from "
            "the signer's own list, fee and sequence rules, genesis round trip. TLC checks a bounded model exhaustively, "
            "one behaviour per distinct (state, last operation) is executed on the real code with real signed "
            "transactions through baseapp.runTx, and seeded random histories (2-3 accounts, trees to depth 3 over probe / "
            "repo Spy / repo TestingAuthenticator leaves, malformed trees, multi-message transactions, missing / surplus "
            "selections, stale sequences, inactive phases, genesis round trips) are validated line by line.",
    "note": TRUST + " Gas budgets (maximum_unauthenticated_gas), partitioned signatures, SignatureVerification, MessageFilter "
            "and CosmWasm authenticators are not covered.",
}
BUILD = [("./app/smartaccount/", "smartaccount")]
PAR = int(os.environ.get("VERIF_PAR", "0") or 0)

SIG_LATE = "tx:confirm-execution-called-after-failed-execution"
SIG_FEE = "tx:fee-kept-without-consuming-sequence-when-later-message-refused"

MC_CFG = """SPECIFICATION MCSpec
CONSTANTS
  ConfirmAfterFailedExec = FALSE
  FeeWithoutSequence = FALSE
  Accts = {"A1", "A2"}
  Ctrl = {"A2"}
  Mode = "%(mode)s"
  MaxOps = %(maxops)d
  AddSet = {%(addset)s}
  TxAddSet = {%(txadd)s}
  TwoMsg = %(two)s
  Variants = %(var)s
  SemLeaves = %(seml)d
  SemTrack = %(semt)s
  HistOn = %(hist)s
VIEW View
%(inv)s
CHECK_DEADLOCK FALSE
"""
INVS = ("IdsUnique RegWellFormed AuthenticatePure StoresConsistent NoCallsWhileInactive ConfirmOnlyAfterExecution "
        "TrackOnlyAfterAuth TxIdsFresh ChargedFeeConsumesSequence")
ACTS = "OwnerOnly IdsIncrease IdsKept FrozenWhileInactive NeverTakenBack FailedTxKeepsNothing"
PROPS = "INVARIANTS " + INVS + "\nPROPERTIES " + ACTS
ACTIONS = ("MCAdd", "MCRm", "MCAct", "MCReimport", "MCQuery", "MCTxBegin", "MCTxAnte", "MCTxExec", "MCTxPost", "MCTxEnd")
RE_COV = re.compile(r"^<(MC\w+) line \d+, col \d+ to line \d+, col \d+ of module MCSmartAccount[^>]*>: (\d+):(\d+)")
ALL = "1, 2, 3, 4, 5, 6, 7, 8, 9, 10"


def cfg(mode="life", maxops=3, addset=ALL, txadd="1, 9", two=True, var=True, seml=2, semt=True, hist=False, inv=PROPS):
    b = lambda x: "TRUE" if x else "FALSE"
    return MC_CFG % dict(mode=mode, maxops=maxops, addset=addset, txadd=txadd, two=b(two), var=b(var), seml=seml,
                         semt=b(semt), hist=b(hist), inv="INVARIANTS Emit" if hist else inv)


def well_formed(t):
    if t["k"] == "leaf":
        return t["oa"]
    if t["k"] in ("all", "any"):
        return len(t["ch"]) >= 2 and all(well_formed(c) for c in t["ch"])
    return False


def depth(t):
    return 1 + max([depth(c) for c in t["ch"]] or [0])


def trace_stats(path):
    """Per-kind counts of the recorded events (non-vacuity), from the logged fields only."""
    c = {}

    def inc(k):
        c[k] = c.get(k, 0) + 1
    st = None
    for ln in open(path):
        e = json.loads(ln)
        k = e["e"]
        inc(k)
        pre = st
        st = e["st"]
        if k == "cfg":
            continue
        act = pre["active"]
        if not act:
            inc("while-inactive:" + k)
        if k == "add":
            wf = well_formed(e["t"])
            inc("add:ok" if e["ok"] else "add:refused:" + ("inactive" if not act else "malformed" if not wf else "OTHER"))
            if e["ok"]:
                inc("add:ok:depth%d" % min(depth(e["t"]), 3))
        elif k == "rm":
            own = any(x["id"] == e["id"] for x in pre["reg"][e["a"]])
            foreign = any(x["id"] == e["id"] for a in pre["reg"] for x in pre["reg"][a]) and not own
            inc("rm:ok" if e["ok"] else "rm:refused:" + ("inactive" if not act else "foreign-id" if foreign else
                                                        "veto" if own else "unknown-id"))
        elif k == "act":
            inc("act:" + ("ok:" + ("on" if e["on"] else "off") if e["ok"] else "refused"))
        elif k == "q":
            inc("q:found" if e["found"] else "q:not-found")
        elif k == "tx":
            phs = {x["ph"] for x in e["calls"]}
            inc("tx:ok" if e["ok"] else "tx:failed")
            inc("tx:msgs=%d" % len(e["msgs"]))
            if e["ext"] != "ok":
                inc("tx:ext=%s:%s" % (e["ext"], "ok" if e["ok"] else "failed"))
            if e["stale"]:
                inc("tx:stale-sequence:" + ("REFUSED" if not e["ok"] else "ACCEPTED"))
            if act and e["ext"] == "ok":
                if e["ok"] and "confirm" in phs:
                    inc("tx:ok-with-confirm-calls")
                if not e["ok"] and "track" not in phs:
                    inc("tx:rejected-before-track")
                if not e["ok"] and "track" in phs and "confirm" not in phs:
                    inc("tx:failed-after-track")
                if not e["ok"] and "confirm" in phs:
                    inc("tx:failed-with-confirm-calls")
                sel = [x for m in e["msgs"] for x in pre["reg"][m["a"]] if x["id"] == m["sel"]]
                if e["ok"] and any(depth(x["t"]) >= 3 for x in sel):
                    inc("tx:ok-through-nested-composite")
                if len({m["a"] for m in e["msgs"]}) > 1:
                    inc("tx:several-signers:" + ("ok" if e["ok"] else "failed"))
            for m in e["msgs"]:
                if e["ok"] and m["m"]["k"] in ("add", "rm"):
                    inc("tx:ok-with-" + m["m"]["k"])
                if m["m"]["k"] == "rm" and m["m"]["id"] == m["sel"] and "track" in phs:
                    inc("tx:removes-selected-authenticator:" + ("REFUSED" if not e["ok"] else "ACCEPTED"))
            if pre["fee"] != st["fee"] and not e["ok"]:
                inc("tx:failed-but-fee-charged")
    return c


NEED = ("cfg", "add:ok", "add:refused:malformed", "add:refused:inactive", "add:ok:depth1", "add:ok:depth2", "add:ok:depth3",
        "rm:ok", "rm:refused:foreign-id", "rm:refused:veto", "rm:refused:unknown-id", "act:ok:on", "act:ok:off", "act:refused",
        "q:found", "q:not-found", "reimport", "block", "tx:ok", "tx:failed", "tx:msgs=1", "tx:msgs=2", "tx:msgs=3",
        "tx:ext=none:ok", "tx:ext=long:failed", "tx:stale-sequence:REFUSED", "tx:ok-with-confirm-calls",
        "tx:rejected-before-track", "tx:failed-after-track", "tx:failed-with-confirm-calls", "tx:ok-through-nested-composite",
        "tx:several-signers:ok", "tx:ok-with-add", "tx:ok-with-rm", "while-inactive:tx", "while-inactive:add",
        "tx:failed-but-fee-charged")


def run(ctx):
    q = ctx.quick
    par = PAR or (4 if q else 12)
    cov = {"samples": []}
    legs = os.environ.get("VERIF_X05_LEGS", "mc,replay,trace").split(",")
    late, feens = [], []   # occurrences of the two known deviations; reported after everything else was checked

    # 1. design: exhaustive model checking of the bounded models
    ctx.leg = "mc"
    states = trans = 0
    cov["mc"] = {}
    mcs = [("life-4ops", dict(maxops=4, addset="1, 2, 3, 6, 7, 9", txadd="1", two=False)),
           ("life-3ops-2msg", dict(maxops=3, two=True)),
           ("sem-3leaves", dict(mode="sem", maxops=2, seml=3, semt=True))] if q else \
          [("life-5ops", dict(maxops=5, addset="1, 2, 3, 6, 7, 9", txadd="1", two=False)),
           ("life-4ops-2msg", dict(maxops=4, addset="1, 2, 3, 4, 6, 9, 10", two=True)),
           ("life-3ops-2msg", dict(maxops=3, two=True)),
           ("sem-3leaves", dict(mode="sem", maxops=2, seml=3, semt=True))]
    if "mc" not in legs:
        mcs = []
    for name, kw in mcs:
        r = vlib.tlc("MCSmartAccount.tla", "mc.cfg", workers=par, timeout=3000, heap="12g", tag="X05-mc", cfg_text=cfg(**kw))
        vlib.tlc_must_pass(r, "MCSmartAccount " + name)
        states += r.distinct
        trans += r.generated
        cov["mc"][name] = {"distinct": r.distinct, "generated": r.generated, "depth": r.depth, "wall_s": round(r.wall, 1)}
        log("MC %s: %d distinct / %d generated, depth %d, %.0fs" % (name, r.distinct, r.generated, r.depth, r.wall))
    if "mc" in legs:
        # non-vacuity of the model: every action is taken (measured on a sub-model: collecting coverage slows TLC)
        r = vlib.tlc("MCSmartAccount.tla", "cov.cfg", workers=2, timeout=900, heap="4g", tag="X05-cov", keep=True,
                     cfg_text=cfg(maxops=3, addset="1, 3, 6, 8", txadd="1"), extra=["-coverage", "1000"])
        vlib.tlc_must_pass(r, "MCSmartAccount coverage")
        taken = {}
        for ln in open(r.out, errors="replace"):
            m = RE_COV.match(ln)
            if m:
                taken[m.group(1)] = max(taken.get(m.group(1), 0), int(m.group(3)))
        for a in ACTIONS:
            if taken.get(a, 0) == 0:
                raise Infra("MCSmartAccount: action %s was never taken (model is vacuous)" % a)
        cov["mc_action_counts"] = taken
    cov["mc_states"], cov["mc_transitions"] = states, trans

    binary = vlib.build_test("./app/smartaccount/", "smartaccount")

    # 2. spec -> impl: one behaviour per distinct (state, last operation), replayed on the real code
    ctx.leg = "replay"
    gens = [("life", "probe", dict(maxops=3, addset="1, 2, 3, 6, 7, 9, 10", two=True)),
            ("sem", "probe", dict(mode="sem", maxops=2, seml=3, semt=False)),
            ("sem2", "probe", dict(mode="sem", maxops=2, seml=2, semt=True)),
            ("sem-spy", "spy", dict(mode="sem", maxops=2, seml=3, semt=False))] if q else \
           [("life", "probe", dict(maxops=3, two=True)),
            ("life4", "probe", dict(maxops=4, addset="1, 2, 3, 6, 9", txadd="1", two=False)),
            ("sem", "probe", dict(mode="sem", maxops=2, seml=3, semt=True)),
            ("sem-spy", "spy", dict(mode="sem", maxops=2, seml=3, semt=False))]
    if "replay" not in legs:
        gens = []
    replayed = steps = 0
    kinds = {}
    cov["replay"] = {}
    for name, impl, kw in gens:
        r = vlib.tlc("MCSmartAccount.tla", "gen.cfg", workers=par, timeout=3000, heap="12g", tag="X05-gen", keep=True,
                     cfg_text=cfg(hist=True, **kw))
        vlib.tlc_must_pass(r, "MCSmartAccount gen " + name)
        d = os.path.dirname(r.out)
        gen = os.path.join(d, "gen.jsonl")
        n = vlib.extract_gen(r.out, gen)
        os.remove(r.out)
        if n == 0:
            raise Infra("generator %s produced no behaviours" % name)
        nsh = par

        def shard(i):
            vlib.run_test(binary, "TestReplay", {"VERIF_IN": gen, "VERIF_OUT": gen + ".result%d" % i, "VERIF_IMPL": impl,
                                                 "VERIF_SHARD": "%d/%d" % (i, nsh)}, timeout=3000)
            return json.load(open(gen + ".result%d" % i))
        with concurrent.futures.ThreadPoolExecutor(max_workers=nsh) as ex:
            parts = list(ex.map(shard, range(nsh)))
        mm = [m for p in parts for m in (p.get("mismatches") or [])]
        nb = sum(p["behaviours"] for p in parts)
        ns = sum(p["steps"] for p in parts)
        nl = sum(p["confirm_after_failed_execution"] for p in parts)
        nf = sum(p["fee_without_sequence"] for p in parts)
        replayed += nb
        steps += ns
        for p in parts:
            for k, v in p["kinds"].items():
                kinds[k] = kinds.get(k, 0) + v
        cov["replay"][name] = {"behaviours": nb, "operations": ns, "leaves": impl, "model_distinct": r.distinct,
                               "confirm_after_failed_execution": nl, "fee_without_sequence": nf}
        if len(cov["samples"]) < 2:
            with open(gen) as f:
                for ln in f:
                    b = json.loads(ln)
                    if len(b["steps"]) >= 2 and b["steps"][-1]["e"] == "tx":
                        for s in b["steps"]:
                            s.pop("st")
                        cov["samples"].append({"spec_behaviour": b})
                        break
        log("replayed %d spec behaviours (%d operations) of %s on the real code with %s leaves: %d mismatches, %d transactions "
            "with ConfirmExecution after a failed execution, %d with the fee kept and no sequence number consumed"
            % (nb, ns, name, impl, len(mm), nl, nf))
        if mm:
            m = mm[0]
            with open(gen) as f:
                beh = [ln for i, ln in enumerate(f) if i == m["behaviour"]][0]
            b = json.loads(beh)
            for s in b["steps"][:m["step"]]:
                s.pop("st", None)
            raise Violation(PROP, "real code deviates from the specification on a generated behaviour, operation %d (%s): %s "
                            "(want %s, got %s)" % (m["step"], b["steps"][m["step"]]["e"], m["what"], json.dumps(m["want"])[:300],
                                                   json.dumps(m["got"])[:300]),
                            {"mismatch": m, "behaviour": b}, "replay:" + re.sub(r"\d+", "N", m["what"]))
        if nl:
            ex_ = [p["confirm_after_failed_execution_example"] for p in parts if p.get("confirm_after_failed_execution_example")][0]
            late.append({"leg": "replay:" + name, "transactions": nl, "example": ex_})
        if nf:
            ex_ = [p["fee_without_sequence_example"] for p in parts if p.get("fee_without_sequence_example")][0]
            with open(gen) as f:
                beh = json.loads([ln for i, ln in enumerate(f) if i == ex_["behaviour"]][0])
            ex_["transaction"] = {k: beh["steps"][ex_["step"]][k] for k in ("msgs", "ext", "fee")}
            for m_ in ex_["transaction"]["msgs"]:
                m_["m"].pop("t", None)
            feens.append({"leg": "replay:" + name, "transactions": nf, "example": ex_})
        states += r.distinct
        trans += r.generated
    for need in ("add", "rm", "act", "reimport", "q", "tx"):
        if gens and kinds.get(need, 0) == 0:
            raise Infra("generator produced no %s operation" % need)

    if "trace" in legs:
        # 3. impl -> spec: recorded random histories validated line by line
        ctx.leg = "trace"
        nh, nops = (48, 70) if q else (640, 120)
        ctx.params = {"histories": nh, "ops": nops}
        d = vlib.scratch("X05-rec")
        trace = os.path.join(d, "smartaccount.ndjson")
        vlib.run_test(binary, "TestRecord", {"VERIF_OUT": trace, "VERIF_SEED": ctx.seed, "VERIF_HISTORIES": nh, "VERIF_OPS": nops},
                      timeout=3000)
        with open(trace) as f:
            for i, ln in enumerate(f):
                e = json.loads(ln)
                if e["e"] == "tx" and e["ok"] and len(cov["samples"]) < 4:
                    e.pop("st")
                    cov["samples"].append({"trace_event": e})
                if i > 200:
                    break
        ks = trace_stats(trace)
        for bad in ("add:refused:OTHER", "tx:stale-sequence:ACCEPTED"):
            if ks.get(bad):
                log("note: recorder saw %d x %s" % (ks[bad], bad))
        # 3a. everything except the timing of ConfirmExecution calls after a failed execution
        gen_, dist_, nlines = vlib.validate_trace(PROP, "TraceSmartAccount.tla", "TraceSmartAccountKnown.cfg", trace,
                                                  parallel=par, timeout=3000)
        log("validated %d recorded events of %d histories against TraceSmartAccount: %d transactions (%d accepted), %d adds, "
            "%d removes" % (nlines, nh, ks.get("tx", 0), ks.get("tx:ok", 0), ks.get("add", 0), ks.get("rm", 0)))
        # non-vacuity (after the validation, so that a deviation that also starves an event kind is reported as what it is)
        for need in NEED:
            if ks.get(need, 0) == 0:
                raise Infra("recorder produced no %s events: driver is not exercising the property" % need)
        # 3b. the properties as stated.  After 3a the only ways for this to fail are P9's "only after successful
        # execution" and P11's "a charged fee consumes the payer's sequence number": each is then checked alone.
        def strict(cfgname, names):
            try:
                g2, d2, _ = vlib.validate_trace(PROP, "TraceSmartAccount.tla", cfgname, trace, parallel=par, timeout=3000)
                return g2, d2, None
            except Violation as v:
                fc = " ".join(v.detail.get("failed_checks") or [])
                if not any(n in fc or v.detail.get("violated") == n for n in names):
                    raise
                ev = json.loads(v.detail.get("offending_event") or "{}")
                ev.pop("st", None)
                for p in [p for p in os.listdir(d) if ".part" in p]:
                    os.remove(os.path.join(d, p))
                return 0, 0, {"leg": "trace", "trace_line": v.detail.get("trace_line"), "event": ev}
        n9 = ("P9-confirm-only-after-successful-execution", "ConfirmOnlyAfterExecution")
        n11 = ("P11-charged-fee-consumes-the-payers-sequence-number", "ChargedFeeConsumesSequence")
        g2, d2, dev = strict("TraceSmartAccount.cfg", n9 + n11)
        gen_, dist_ = gen_ + g2, dist_ + d2
        if dev:
            for cfgname, names, bucket in (("TraceSmartAccountP9.cfg", n9, late), ("TraceSmartAccountP11.cfg", n11, feens)):
                g2, d2, dev = strict(cfgname, names)
                gen_, dist_ = gen_ + g2, dist_ + d2
                if dev:
                    bucket.append(dev)
        cov.update({"recorded_histories": nh, "recorded_events": nlines, "event_kinds": ks})
        states += dist_
        trans += gen_
    cov.update({"states": states, "transitions": trans,
                "traces_validated_against_impl": cov.get("recorded_histories", 0) + replayed,
                "spec_behaviours_replayed": replayed, "operations_replayed": steps, "replayed_operation_kinds": kinds,
                "checker_cmd": "bin/check X05 --tier " + ctx.tier})
    if late:
        ctx.finding(SIG_LATE, "ConfirmExecution is called on the selected authenticators after the execution of the messages "
                    "failed (the post handler ignores its `success` argument), against README 'If the execution is successful, "
                    "we continue in the post handler'; the writes are discarded with the transaction (%s)"
                    % json.dumps(late[0])[:600], {"occurrences": late})
    if feens:
        ctx.finding(SIG_FEE, "a transaction whose fee payer is authenticated and whose later message is refused in the ante phase "
                    "keeps the fee although no sequence number is consumed: the same signed bytes are charged again on every "
                    "delivery (%s)" % json.dumps(feens[0])[:600], {"occurrences": feens})
    cov["known_finding_hits"] = dict(ctx.known_hit)
    vlib.write_evidence(PROP, ctx.tier, ctx.seed, "model_checking", cov, time.time() - ctx.t0,
                        ["TLC evaluator; Json/IOUtils community modules",
                         "harness: probe leaf authenticator (verdicts from its configuration, counters in the module store, calls "
                         "reported in memory), transaction builder (every signer signs with its own key), projection of the state "
                         "through the module's getters / bank balances / account sequences (shared by both binding directions)",
                         "transactions are delivered with BaseApp.SimDeliver (runTx in finalize mode) into the state of a block "
                         "whose begin/end blockers already ran; a new block is committed every 12 transactions",
                         "maximum_unauthenticated_gas is raised so that gas budgets never decide; ConsensusMinFee is zero"])


def evidence_on_violation(ctx, v):
    vlib.write_evidence(PROP, ctx.tier, ctx.seed, "model_checking",
                        {"evaluations": 1, "distinct_nontrivial": 2, "samples": [v.what],
                         "explanation": "violation found in leg " + str(ctx.leg)}, time.time() - ctx.t0, [], 1)
