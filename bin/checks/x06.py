"""X06 (extra) - x/poolmanager + x/txfees: what happens to a taker fee after it has been charged: the skim
accumulators of the taker-fee-share agreements (direct and through registered alloyed pools), the epoch-end
distribution (skim payout, base / non-base split between community pool, burn and stakers, the intermediate
collectors and their swaps, the staking rewards smoothing buffer) and the trackers.
Spec: spec/TakerFeeDist.tla (properties S1-S6, E1-E9 in its header).
Legs: exhaustive TLC on bounded models (MCTakerFeeDist, every outcome of every collector swap), impl->spec
validation of recorded random histories on a full app (TraceTakerFeeDist, BigNum), spec->impl replay of the
shortest behaviour to every distinct state after an epoch end of further bounded models on the real keepers."""
import concurrent.futures, json, os, re, time
import vlib
from vlib import Infra, Violation, log

TRUST = ("Trusted: TLC evaluator, Json/IOUtils community modules, BigNum java override (differentially tested by "
         "bin/check setup), harness projection functions (shared by both binding directions), go -overlay.")
MANIFEST = {
    "engine": "tlc+go-harness", "design_ref": "docs/extra_x06.md; DESIGN.md section 3 (common method)",
    "technique": "TLA+ spec TakerFeeDist.tla; TLC exhaustive MC on bounded models; recorded histories trace-validated by TLC "
                 "with BigNum; TLC-generated behaviours replayed on the real keepers",
    "text": "TakerFeeDist.tla models a routed swap (fee per denomination is an input; the accumulators of the applicable "
            "agreements grow by floor(fee * percent)), the governance message that sets an agreement, registration / "
            "recalculation of alloyed compositions, reconfiguration, deposits, and the txfees AfterEpochEnd as nine phases "
            "(non-native fees, skim payout, base split, other split, community-pool / burn / stakers collectors, smoothing). "
            "Invariants: conservation with a `void` ledger (no coin of the supply held by nobody), non-negativity, skim "
            "accumulators covered by the collector, one coherent view of the agreements; action properties: quiet between "
            "epochs, trackers monotone and equal to the deliveries, skim paid exactly once or kept, collector emptied, nothing "
            "stranded, smoothing exact.",
    "note": TRUST + " Messages run like transactions (ValidateBasic + registered handler on a branch written only on success); "
            "AfterEpochEnd is called as the epochs module calls it; the poolmanager BeginBlock / EndBlock are run through the module manager.",
}
BUILD = [("./app/takerfeedist/", "takerfeedist")]

MC_CFG = """SPECIFICATION MCSpec
CONSTANTS
  NAdd <- IAdd
  NSub <- ISub
  NMul <- IMul
  NLe <- ILe
  NFloorDiv <- IFloorDiv
  NZero = 0
  NUnit = 4
  MaxSwap = %(swap)d
  MaxDep = %(dep)d
  MaxEpoch = %(epoch)d
  MaxAgr = %(agr)d
  MaxConf = %(conf)d
  MaxFail = %(fail)d
  Fees = {%(fees)s}
  Pcts = {%(pcts)s}
  SwapModel = "%(model)s"
  AsBuilt = {%(asbuilt)s}
  UseAlloy = %(alloy)s
  Family = "%(family)s"
VIEW View
%(inv)s
CHECK_DEADLOCK FALSE
"""
PROPS = ("INVARIANTS TypeOK Conservation NothingVanishes NonNegative AccrNonNegative SkimBacked CacheCoherent AgreementsWellFormed\n"
         "PROPERTIES QuietBetweenEpochs TrackersMonotone TrackersMatchDeliveries SkimExactlyOnce CollectorEmptied SourcesEmptied "
         "NothingStranded SmoothingExact BufferOnlyGrowsOtherwise")
MC_ACTIONS = ("MCSwap", "MCAgr", "MCFailedTx", "MCRegister", "MCReweigh", "MCConf", "MCDep", "MCEpochStart", "MCNonNative", "MCSkim",
              "MCBase", "MCOther", "MCCommunity", "MCBurn", "MCStakers", "MCSmooth")

# deviations of the current tree from the stated properties, keyed by what exactly went wrong
SIG = {
    "stc": "epoch:stranded:stakers-collector:base-denom",
    "buc": "epoch:stranded:burn-collector:base-denom",
    "cpc": "epoch:stranded:community-pool-collector:target-denom",
    "cache": "failed-tx:agreement-visible-to-swaps",
    "cache2": "keeper-copies:agreement-caches-diverge",
    "lost": "epoch:accumulators-cleared-without-payout:prefix-denom",
    "burnt": "epoch:failed-payout-destroys-coins:uncovered-accumulator",
    "areg": "alloy:registration-deleted:pool-id-prefix",
}
DEV_ORDER = ("stc", "buc", "cpc", "cache", "cache2", "lost", "burnt", "areg")
DEV_PROP = {"stc": "NothingStranded (E7)", "buc": "NothingStranded (E7)", "cpc": "NothingStranded (E7)", "cache": "CacheCoherent (S6)",
            "cache2": "OneView (S6)", "lost": "SkimExactlyOnce (E3)", "burnt": "NothingVanishes (E1, E3)", "areg": "NoLostRegistration (S3)"}
TEXT = {
    "stc": "after AfterEpochEnd the stakers collector (non_native_fee_collector_stakers) still holds base-denomination coins: the remainder of "
           "the base split is sent there with the other coins, but only the proceeds of the swaps are handed to the staking rewards buffer - "
           "base coins of the collector need no swap and are never delivered (they stay there for good)",
    "buc": "after AfterEpochEnd the burn collector (non_native_fee_collector_burn) still holds base-denomination coins: the burn share of the "
           "remainder of the base split is sent there, but only the proceeds of the swaps are sent to the null address",
    "cpc": "after AfterEpochEnd the community-pool collector (non_native_fee_collector_community_pool) still holds coins of the denomination "
           "it converts into (CommunityPoolDenomToSwapNonWhitelistedAssetsTo): when that denomination is not whitelisted its community-pool "
           "share is sent to the collector, needs no swap, and is never handed to the community pool",
    "cache": "a transaction that sets a taker fee share agreement and then fails (a later message of the same proposal fails, or the "
             "recalculation of an alloyed composition fails) leaves the agreement in the in-memory map swaps read: swaps accrue skim for an "
             "agreement that is not stored (never paid, never cleared)",
    "cache2": "the app hands x/poolmanager's module (message server, BeginBlock) a COPY of the keeper; after the module's first BeginBlock "
              "reload the copies hold separate agreement / alloyed-composition maps, so swaps entering through another module (x/gamm swap "
              "messages, contracts, protorev) do not see agreements set by the governance message: no skim accrues for them",
    "lost": "the accumulators of an agreement whose payout was withheld (address cannot receive / agreement not stored) are deleted when "
            "the accumulators of another agreement whose denomination is a prefix of it are cleared (the delete iterates over the store prefix "
            "without the key separator): the noted skim is lost",
    "burnt": "a skim payout that the taker fee collector cannot cover in every denomination fails half way: the bank has already subtracted "
             "the coins that were covered, the error is swallowed without a cache context, and those coins are held by nobody (the bank's "
             "supply no longer equals the sum of the balances)",
    "areg": "registering an alloyed pool deletes the store entries of every registered alloyed pool whose id starts with the same digits "
            "(the 'remove the old entry of this pool id' iteration uses the prefix without the key separator): pool 1 removes pools 10-19; "
            "the removed pools are no longer recalculated and vanish from what swaps see at the next restart",
}


def big(b):
    x = 0
    for limb in reversed(b["m"]):
        x = x * 10000 + limb
    return -x if b["s"] < 0 else x


def mc_cfg(inv=PROPS, **kw):
    d = dict(swap=2, dep=1, epoch=1, agr=1, conf=0, fail=0, fees="3", pcts="1, 4", model="free", asbuilt="", alloy="FALSE", family="A")
    d.update(kw)
    return MC_CFG % dict(d, inv=inv)


RE_COV = re.compile(r"^<(MC\w+) line .*>: (\d+):(\d+)")


def action_coverage(out):
    cov = {}
    for line in open(out, errors="replace"):
        m = RE_COV.match(line)
        if m:
            cov[m.group(1)] = cov.get(m.group(1), 0) + int(m.group(3))
    return cov


def nth_line(path, n):
    with open(path) as f:
        for i, ln in enumerate(f):
            if i == n:
                return ln
    return "null"


def amounts(m):
    return {d: str(big(x)) for d, x in m.items() if big(x) != 0}


def scan(trace):
    """What the recorder exercised (non-vacuity) and every event at which the recorded execution deviates from
    S6 / E1 / E3 / E7 / S3, classified: class -> [(line, signature, example)]."""
    c = {k: 0 for k in ("histories", "events", "swap_ok", "swap_failed", "swap_via_gamm", "swap_with_fee", "swap_accrues", "swap_over_100_percent",
                        "swap_accrues_through_alloy", "swap_two_fee_denoms", "agr_ok", "agr_failed_tx", "agr_blocked_address", "conf", "dep_nn", "dep_other",
                        "block", "alloy_register", "alloy_recalc", "mint", "epoch_day", "epoch_other", "epoch_skim_paid", "epoch_skim_withheld",
                        "epoch_collector_swaps", "epoch_two_hop_swaps", "epoch_unswapped_left", "epoch_community_direct", "epoch_burn", "epoch_smoothed_partially",
                        "epoch_base_split", "epoch_nonnative_to_buffer", "amounts_over_int64")}
    dev = {k: [] for k in DEV_ORDER}
    prev = None
    hist = 0
    for n, ln in enumerate(open(trace), 1):
        e = json.loads(ln)
        st = e["st"]
        k = e["e"]
        c["events"] += 1
        where = {"line": n, "history": hist}
        if k == "cfg":
            c["histories"] += 1
            hist = e["id"]
            where["history"] = hist
            prev = st
        cf = st["cf"]
        base = cf["base"]
        agr_p = {a["d"]: a for a in (prev or st)["agr"]}
        seen_p = {a["d"]: a for a in (prev or st)["seen"]}
        if k == "swap":
            c["swap_ok" if e["ok"] else "swap_failed"] += 1
            c["swap_via_gamm"] += e["via"] == "gamm"
            fee = {d: big(x) for d, x in e["fee"].items()}
            c["swap_with_fee"] += any(fee.values())
            c["swap_two_fee_denoms"] += sum(1 for x in fee.values() if x) >= 2
            c["amounts_over_int64"] += any(x >= 2 ** 63 for x in fee.values())
            grew = st["accr"] != prev["accr"]
            c["swap_accrues"] += grew
            view = prev["seen2"] if e["via"] == "gamm" else prev["seen"]
            aview = prev["alloy2"] if e["via"] == "gamm" else prev["alloy"]
            direct = {a["d"] for a in view} & set(e["route"])
            if grew and not direct and {a["l"] for a in aview} & set(e["route"]):
                c["swap_accrues_through_alloy"] += 1
            if not e["ok"] and "invalid taker fee share percentage" in e.get("err", ""):
                c["swap_over_100_percent"] += 1
        elif k == "agr":
            done = e["ok"] and e["commit"]
            c["agr_ok" if done else "agr_failed_tx"] += 1
            c["agr_blocked_address"] += done and e["addr"] in cf["blocked"]
            if not done and (st["seen"] != prev["seen"] or st["alloy"] != prev["alloy"]):
                dev["cache"].append((n, SIG["cache"], dict(where, denom=e["d"], handler_ok=e["ok"], committed=e["commit"],
                                                           stored=[a["d"] for a in st["agr"]], seen_by_swaps=[a["d"] for a in st["seen"]])))
        elif k == "conf":
            c["conf"] += 1
        elif k == "dep":
            c["dep_nn" if e["acct"] == "nn" else "dep_other"] += 1
        elif k == "block":
            c["block"] += 1
        elif k == "mint":
            c["mint"] += 1
        elif k == "alloy":
            c["alloy_register" if e["why"] == "register" else "alloy_recalc"] += 1
            if e.get("storeLost"):
                pid = str(e.get("pool", ""))
                lostp = [str(x) for x in e.get("lostPools", [])]
                pref = pid and lostp and all(x.startswith(pid) and x != pid for x in lostp)
                dev["areg"].append((n, SIG["areg"] if pref else "alloy:registration-deleted:other",
                                    dict(where, registered_pool=e.get("pool"), pools_deleted_from_store=e.get("lostPools"), why=e["why"])))
        elif k == "epoch":
            c["epoch_day" if e["ident"] == "day" else "epoch_other"] += 1
            bal, pb = st["bal"], prev["bal"]
            c["epoch_collector_swaps"] += len(e["swaps"])
            links = {frozenset(l) for l in cf["links"]}
            c["epoch_two_hop_swaps"] += sum(1 for s in e["swaps"] if frozenset((s["din"], s["dout"])) not in links)
            c["epoch_unswapped_left"] += any(big(x) for col in ("cpc", "buc", "stc", "nn") for d, x in bal[col].items()
                                             if d != (cf["cpt"] if col == "cpc" else base))
            c["epoch_community_direct"] += any(big(bal["cp"][d]) > big(pb["cp"][d]) and d in cf["wl"] and d != base for d in bal["cp"])
            c["epoch_burn"] += big(bal["null"][base]) > big(pb["null"][base])
            c["epoch_base_split"] += big(pb["tc"][base]) > 0
            c["epoch_nonnative_to_buffer"] += any(s["c"] == "nn" for s in e["swaps"])
            c["epoch_smoothed_partially"] += e["ident"] == "day" and big(cf["smooth"]) > 1 and big(bal["fc"][base]) > big(pb["fc"][base])
            # skim: which agreements had accumulators, which were paid
            pacc, nacc = {}, {}
            for a in prev["accr"]:
                pacc.setdefault(a["a"], {})[a["d"]] = big(a["x"])
            for a in st["accr"]:
                nacc.setdefault(a["a"], {})[a["d"]] = big(a["x"])
            paid_any = withheld_any = False
            for a, owed in pacc.items():
                ag = agr_p.get(a)
                payable = ag is not None and ag["addr"] not in cf["blocked"]
                cleared = a not in nacc
                got = payable and all(big(bal[ag["addr"]][d]) - big(pb[ag["addr"]][d]) >= x for d, x in owed.items())
                if cleared and got:
                    paid_any = True
                elif nacc.get(a) == owed:
                    withheld_any = True
                else:
                    visited = e.get("order", [])
                    pref = any(b != a and a.startswith(b) for b in visited)
                    dev["lost"].append((n, SIG["lost"] if pref else "epoch:accumulators-cleared-without-payout:other",
                                        dict(where, agreement=a, owed={d: str(x) for d, x in owed.items()}, stored_agreement=ag is not None,
                                             address_blocked=bool(ag and ag["addr"] in cf["blocked"]), visited=visited,
                                             accumulators_after={d: str(x) for d, x in nacc.get(a, {}).items()})))
            c["epoch_skim_paid"] += paid_any
            c["epoch_skim_withheld"] += withheld_any
            for col, tgt, key in (("stc", base, "stc"), ("buc", base, "buc"), ("cpc", cf["cpt"], "cpc")):
                if big(bal[col][tgt]) != 0:
                    dev[key].append((n, SIG[key], dict(where, collector=col, denom=tgt, held_after=str(big(bal[col][tgt])),
                                                       held_before=str(big(pb[col][tgt])), whitelist=cf["wl"], ident=e["ident"])))
            if any(big(bal["void"][d]) != big(pb["void"][d]) for d in bal["void"]):
                dev["burnt"].append((n, SIG["burnt"], dict(where, coins_held_by_nobody=amounts(bal["void"]), collector_before=amounts(pb["tc"]),
                                                            accumulators_before=[(a["a"], a["d"], str(big(a["x"]))) for a in prev["accr"]],
                                                            visited=e.get("order", []))))
        if k != "cfg" and any(big(bal_d) != 0 for bal_d in st["bal"]["void"].values()) and k != "epoch":
            if any(big(st["bal"]["void"][d]) != big(prev["bal"]["void"][d]) for d in st["bal"]["void"]):
                dev["burnt"].append((n, "coins-vanish:outside-epoch-end:" + k, dict(where, coins_held_by_nobody=amounts(st["bal"]["void"]))))
        if st["seen2"] != st["seen"] or st["alloy2"] != st["alloy"]:
            if not (prev is not None and k != "cfg" and (prev["seen2"] != prev["seen"] or prev["alloy2"] != prev["alloy"])):
                dev["cache2"].append((n, SIG["cache2"], dict(where, event=k, seen_through_poolmanager=[a["d"] for a in st["seen"]],
                                                             seen_through_other_modules=[a["d"] for a in st["seen2"]],
                                                             alloyed_through_poolmanager=[a["l"] for a in st["alloy"]],
                                                             alloyed_through_other_modules=[a["l"] for a in st["alloy2"]])))
        prev = st
    return c, dev


def validate(ctx, trace, cfg, parallel):
    """Trace validation in chunks (as vlib.validate_trace) that also returns what the monitor configuration
    reported: for each deviation class the first trace line (0: none) of every chunk."""
    chunks = vlib.split_histories(trace, parallel)
    gen = dist = nlines = 0
    first = {k: [] for k in DEV_ORDER}

    def one(ch):
        return ch, vlib.tlc("TraceTakerFeeDist.tla", cfg, workers=1, timeout=1500, env={"TRACE_FILE": ch[0]}, heap="3g", tag="X06-trace")

    with concurrent.futures.ThreadPoolExecutor(max_workers=parallel) as ex:
        results = list(ex.map(one, chunks))
    for (p, start, n), r in results:
        if r.error:
            raise Infra("trace validation: %s" % r.error)
        gen += r.generated
        dist += r.distinct
        nlines += n
        if not r.ok:
            if r.rejected_line is not None and not r.violated:
                ln, what = r.rejected_line, "recorded step is not a step of the specification"
            else:
                ln, what = (r.last_l if r.last_l else r.depth), "property %s is false in a recorded state" % r.violated
            lines = open(p).read().split("\n")
            hstart = ln - 1
            while hstart > 0 and '"e":"cfg"' not in lines[hstart]:
                hstart -= 1
            checks = [x for x in r.failed_checks if "ledger" not in x and "tracker" not in x and "accumulator" not in x] or r.failed_checks
            detail = {"spec": "TraceTakerFeeDist.tla", "cfg": cfg, "chunk_line": ln, "trace_line": start + ln - 1, "reason": what,
                      "violated": r.violated, "failed_checks": r.failed_checks[-6:],
                      "offending_event": lines[ln - 1][:4000] if 0 < ln <= len(lines) else None,
                      "history_prefix": [x[:3000] for x in lines[hstart:ln][-60:]], "tlc_output": r.out}
            if r.failed_checks and not r.violated:
                what += ": " + checks[-1]
            sig = "trace:" + (r.violated or (checks[-1] if checks else "rejected"))
            raise Violation("X06", what + (" (%s)" % r.violated if r.violated else ""), detail, sig)
        m = [re.search(r'"DEVIATIONS", ' + ", ".join([r"(\d+)"] * len(DEV_ORDER)), x) for x in r.prints]
        m = [x for x in m if x]
        if not m:
            raise Infra("trace validation: the monitor did not report (see %s)" % r.out)
        for i, k in enumerate(DEV_ORDER):
            v = int(m[-1].group(i + 1))
            if v:
                first[k].append(start + v - 1)
    for p, _, _ in chunks:
        try:
            os.remove(p)
        except OSError:
            pass
    return gen, dist, nlines, first


def run(ctx):
    q = ctx.quick
    cov = {"samples": []}
    # development aid: VERIF_X06_LEGS=trace runs only the named legs (no evidence is written then)
    legs = [x for x in os.environ.get("VERIF_X06_LEGS", "mc,trace,replay").split(",") if x]
    workers = min(vlib.NCPU, 4 if q else 8)
    pool = concurrent.futures.ThreadPoolExecutor(max_workers=1)
    building = pool.submit(vlib.build_test, "./app/takerfeedist/", "takerfeedist")

    # 1. design: exhaustive model checking of the bounded spec, every outcome of every collector swap
    ctx.leg = "mc"
    if q:
        mcs = [("family A: two swaps, an agreement, a deposit, a failed transaction, one epoch end", dict(fail=1)),
               ("family B (blocked address, two-hop routes): a swap, an agreement, a deposit, a reconfiguration, one epoch end",
                dict(family="B", swap=1, conf=1, fees="5")),
               ("family D with an alloyed pool: two swaps, an agreement, registration / reweighing, one epoch end",
                dict(family="D", dep=0, alloy="TRUE"))]
    else:
        mcs = [("family A: two swaps of two amounts, an agreement, a deposit, a failed transaction, one epoch end", dict(fail=1, fees="3, 5")),
               ("family B: a swap, an agreement, a deposit, a reconfiguration, two epoch ends", dict(family="B", swap=1, conf=1, epoch=2, fees="5")),
               ("family C (broken link, blocked address): a swap of two amounts, two agreements, a deposit, a reconfiguration, one epoch end",
                dict(family="C", swap=1, agr=2, conf=1, fees="3, 5")),
               ("family D with an alloyed pool: two swaps, two agreements, registration / reweighing, one epoch end",
                dict(family="D", dep=0, agr=2, alloy="TRUE")),
               ("families B and C: two swaps, an agreement, two epoch ends", dict(family="BC", swap=2, dep=0, epoch=2, fees="5"))]
    states = trans = 0
    mc_detail, taken = [], {}
    try:
        for name, kw in (mcs if "mc" in legs else []):
            r = vlib.tlc("MCTakerFeeDist.tla", "mc.cfg", workers=workers, timeout=3000, heap="16g", tag="X06-mc", keep=True,
                         cfg_text=mc_cfg(**kw), extra=["-coverage", "1"])
            vlib.tlc_must_pass(r, "MCTakerFeeDist (%s)" % name)
            ac = action_coverage(r.out)
            for a in MC_ACTIONS:
                taken[a] = taken.get(a, 0) + ac.get(a, 0)
            states += r.distinct
            trans += r.generated
            mc_detail.append({"model": name, "distinct": r.distinct, "generated": r.generated, "depth": r.depth, "wall_s": round(r.wall), "actions": ac})
            log("MC %s: %d distinct / %d generated, depth %d, %.0fs" % (name, r.distinct, r.generated, r.depth, r.wall))
    finally:
        binary = building.result()
    for a in MC_ACTIONS:
        if taken.get(a, 0) == 0 and "mc" in legs:
            raise Infra("MCTakerFeeDist: action %s was never taken in any bounded model" % a)
    cov["mc_states"], cov["mc_transitions"], cov["mc_models"], cov["mc_action_coverage"] = states, trans, mc_detail, taken

    # 2. impl -> spec: recorded random histories validated line by line (monitor configuration: the known
    #    deviations are followed and reported; everything else must be a step of the specification)
    ctx.leg = "trace"
    observed = set()
    nh = nlines = 0
    c, dev = {}, {}
    if "trace" in legs:
        nh, ns = (40, 60) if q else (600, 80)
        ctx.params = {"histories": nh, "steps": ns}
        d = vlib.scratch("X06-rec")
        trace = os.path.join(d, "takerfeedist.ndjson")
        vlib.run_test(binary, "TestRecord", {"VERIF_OUT": trace, "VERIF_SEED": ctx.seed, "VERIF_HISTORIES": nh, "VERIF_STEPS": ns}, timeout=2400)
        with open(trace) as f:
            for i, ln in enumerate(f):
                if i in (1, 2, 7):
                    e = json.loads(ln)
                    e.pop("q", None)
                    e["st"] = {k: v for k, v in e["st"].items() if k in ("agr", "accr", "trk")}
                    cov["samples"].append({"trace_event": e})
        c, dev = scan(trace)
        for need in ("swap_ok", "swap_failed", "swap_via_gamm", "swap_with_fee", "swap_accrues", "swap_over_100_percent", "swap_accrues_through_alloy",
                     "swap_two_fee_denoms", "agr_ok", "agr_failed_tx", "agr_blocked_address", "conf", "dep_nn", "dep_other", "block", "alloy_register",
                     "alloy_recalc", "epoch_day", "epoch_other", "epoch_skim_paid", "epoch_skim_withheld", "epoch_collector_swaps", "epoch_two_hop_swaps",
                     "epoch_unswapped_left", "epoch_community_direct", "epoch_burn", "epoch_smoothed_partially", "epoch_base_split",
                     "epoch_nonnative_to_buffer"):
            if c[need] == 0:
                raise Infra("recorder produced no %s: driver is not exercising the property" % need)
        gen_, dist_, nlines, first = validate(ctx, trace, "TraceTakerFeeDistMon.cfg", 4 if q else 12)
        log("validated %d recorded events of %d histories against TraceTakerFeeDist: %d swaps (%d with accrual, %d through x/gamm), %d epoch ends "
            "(%d collector swaps), %d agreements (%d in failed transactions)"
            % (nlines, nh, c["swap_ok"], c["swap_accrues"], c["swap_via_gamm"], c["epoch_day"] + c["epoch_other"], c["epoch_collector_swaps"],
               c["agr_ok"] + c["agr_failed_tx"], c["agr_failed_tx"]))
        states += dist_
        trans += gen_
        # TLC says at which line each stated property first fails in every chunk; the scan classifies every such event
        for k in DEV_ORDER:
            lines_py = {x[0] for x in dev[k]}
            for ln in first[k]:
                if ln not in lines_py:
                    ex = json.loads(nth_line(trace, ln - 1))
                    ex.pop("q", None)
                    ctx.finding("trace:%s:unclassified" % k, "%s is false at recorded line %d and the event has none of the known shapes"
                                % (DEV_PROP[k], ln), {"leg": "trace", "event": ex, "trace": trace})
            if dev[k] and not first[k]:
                raise Infra("the scan found %s events (first at line %d) but TLC did not report %s" % (k, dev[k][0][0], DEV_PROP[k]))
            seen_sig = set()
            for ln, sig, ex in dev[k]:
                if sig in seen_sig:
                    continue
                seen_sig.add(sig)
                ctx.finding(sig, "%s is false in a recorded execution: %s (%s)" % (DEV_PROP[k], TEXT[k] if sig == SIG[k] else sig, json.dumps(ex)[:700]),
                            {"leg": "trace", "first_trace_line": ln, "example": ex, "occurrences": len(dev[k]), "trace": trace})
            if dev[k]:
                observed.add(k)

    # 3. spec -> impl: the shortest behaviour to every distinct state after an epoch end (deterministic deep pools),
    #    executed on the real keepers and compared after every step.  Where the recorded executions of this run
    #    showed a collector to keep its target denomination (E7, reported above) the generated model does the same.
    ctx.leg = "replay"
    asb = ", ".join('"%s"' % k for k in ("cpc", "buc", "stc") if k in observed)
    if q:
        gens = [("family D: a swap, an agreement, a deposit, a failed transaction, one epoch end", dict(family="D", swap=1, fail=1)),
                ("family A: a swap, two agreements (over 100% together), one epoch end", dict(swap=1, agr=2, dep=0)),
                ("family B: a swap, an agreement, a deposit, two epoch ends", dict(family="B", swap=1, epoch=2, fees="5"))]
    else:
        gens = [("family A: two swaps, an agreement, a deposit, a failed transaction, one epoch end", dict(fail=1)),
                ("family A: a swap, two agreements, a deposit, a failed transaction, one epoch end", dict(swap=1, agr=2, fail=1)),
                ("family B: a swap, two agreements, a deposit, one epoch end", dict(family="B", swap=1, agr=2, fees="5")),
                ("family B: a swap, an agreement, a deposit, two epoch ends", dict(family="B", swap=1, epoch=2, fees="5")),
                ("family C: a swap of two amounts, two agreements, one epoch end", dict(family="C", swap=1, dep=0, agr=2, fees="3, 5")),
                ("family C: a swap, an agreement, a deposit, a reconfiguration, one epoch end", dict(family="C", swap=1, conf=1, fees="5")),
                ("family D: two swaps, an agreement, a deposit, two epoch ends", dict(family="D", epoch=2))]
    replayed = rsteps = 0
    kinds, counts = {}, {}
    for name, kw in (gens if "replay" in legs else []):
        r = vlib.tlc("MCTakerFeeDist.tla", "gen.cfg", workers=1, timeout=3000, heap="12g", tag="X06-gen", keep=True,
                     cfg_text=mc_cfg(inv="INVARIANTS Emit", model="pool", asbuilt=asb, **kw))
        vlib.tlc_must_pass(r, "GenTakerFeeDist (%s)" % name)
        gen = os.path.join(os.path.dirname(r.out), "gen.jsonl")
        n = vlib.extract_gen(r.out, gen)
        if n == 0:
            raise Infra("generator produced no behaviours")
        nsh = 4 if q else 8

        def shard(i):
            vlib.run_test(binary, "TestReplay", {"VERIF_IN": gen, "VERIF_OUT": gen + ".result%d" % i, "VERIF_SHARD": "%d/%d" % (i, nsh)}, timeout=3000)
            return json.load(open(gen + ".result%d" % i))
        with concurrent.futures.ThreadPoolExecutor(max_workers=nsh) as ex:
            parts = list(ex.map(shard, range(nsh)))
        mm = [m for p in parts for m in (p.get("mismatches") or [])]
        nb = sum(p["behaviours"] for p in parts)
        replayed += nb
        rsteps += sum(p["steps"] for p in parts)
        for p in parts:
            for k, v in p["kinds"].items():
                kinds[k] = kinds.get(k, 0) + v
            for k, v in (p.get("counts") or {}).items():
                counts[k] = counts.get(k, 0) + v
        if len(cov["samples"]) < 4:
            cov["samples"].append({"spec_behaviour": [dict(s, st="...") for s in json.loads(nth_line(gen, min(200, n - 1)))["steps"]]})
        log("replayed %d spec behaviours (%s; %d states) on the real keepers: %d mismatches" % (nb, name, r.distinct, len(mm)))
        if mm:
            m = mm[0]
            beh = nth_line(gen, m["behaviour"])
            raise Violation("X06", "real keepers deviate from the specification on a generated behaviour at step %d: %s (want %s, got %s)"
                            % (m["step"], m["what"], json.dumps(m["want"])[:300], json.dumps(m["got"])[:300]),
                            {"mismatch": m, "behaviour": json.loads(beh)}, "replay:" + m["what"])
        states += r.distinct
        trans += r.generated
    if "replay" in legs:
        for need in ("swap", "agr", "dep", "epoch"):
            if kinds.get(need, 0) == 0:
                raise Infra("generated behaviours contain no %s step" % need)
        for need in ("collector_swaps", "failed_transactions", "swaps_over_100_percent"):
            if counts.get(need, 0) == 0:
                raise Infra("generated behaviours contain no %s" % need)
        if counts.get("leaked_agreements", 0) and "cache" not in observed and "trace" in legs:
            raise Infra("the replay saw agreements of failed transactions visible to swaps but the recorded executions did not")
        if counts.get("leaked_agreements", 0):
            ctx.finding(SIG["cache"], "CacheCoherent (S6) is false on a generated behaviour: " + TEXT["cache"],
                        {"leg": "replay", "occurrences": counts["leaked_agreements"]})

    cov.update({"states": states, "transitions": trans, "traces_validated_against_impl": nh + replayed,
                "recorded_histories": nh, "recorded_events": nlines, "recorder_counts": c,
                "deviations_observed": {k: len(v) for k, v in dev.items()}, "deviation_examples": {k: v[0][2] for k, v in dev.items() if v},
                "spec_behaviours_replayed": replayed, "steps_replayed": rsteps, "replayed_step_kinds": kinds, "replay_counts": counts,
                "replay_model_follows_tree_for": sorted(observed & {"cpc", "buc", "stc"}),
                "known_finding_hits": dict(ctx.known_hit), "checker_cmd": "bin/check X06 --tier " + ctx.tier})
    if len(legs) < 3:
        return
    vlib.write_evidence("X06", ctx.tier, ctx.seed, "model_checking", cov, time.time() - ctx.t0,
                        ["TLC evaluator; Json/IOUtils community modules; BigNum java override",
                         "harness projection: bank balances of the seven module accounts, the null address and the skim addresses, the community pool "
                         "(x/distribution fee pool), every other balance of the bank summed into `rest`, supply minus all balances into `void`; "
                         "accumulators, trackers, stored agreements through the exported keeper getters; what swaps see through the module's gRPC "
                         "query (x/poolmanager's keeper copy) and the UNSAFE getters of the keeper the app hands to the other modules",
                         "messages run as ValidateBasic + registered handler on a branch written only on success; a failed transaction = the "
                         "handler succeeded and a later message of the same transaction failed",
                         "the fee a swap charges (C02/C05), the proceeds of a pool swap (C03/C04) and which collector swaps fail are inputs from the "
                         "log; the collector swaps are read from the token_swapped events of AfterEpochEnd and confirmed by the ledgers",
                         "protorev links are read back through GetPoolForDenomPairNoOrder; the route chosen among several intermediaries is not checked",
                         "split-route swap messages, the fee decorator (non-native tx fees are deposited directly), genesis import/export and the "
                         "taker-fee-reduced whitelist are not driven; alloyed pools are not part of the replayed models"])


def evidence_on_violation(ctx, v):
    vlib.write_evidence("X06", ctx.tier, ctx.seed, "model_checking",
                        {"evaluations": 1, "distinct_nontrivial": 2, "samples": [v.what],
                         "explanation": "violation found in leg " + str(ctx.leg)}, time.time() - ctx.t0, [], 1)
