"""C16 - the store-backed sum-tree answers every range-sum query like a sorted map, for
every fan-out, and its accumulations stay consistent with its leaves.
Spec: spec/SumTree.tla (abstract map + node-level transcription of node.go/tree.go).
Legs: exhaustive TLC of both layers (MCSumTree); spec->impl replay of one behaviour per
transition of the model's reachable graph on the real tree (all queries over all keys and
key pairs, node dumps); impl->spec validation of recorded random histories by TLC
(TraceSumTree, monitor form).  Every deviation is a violation: the five defects the
first runs exhibited (docs/findings_c16.json) were repaired by four `fix:` commits in /repo
(docs/fix_c16_*.diff), so the model of "the code as it is" is Fix = AllFixes (emptied nodes
stay in the tree); Fix = {} (the algorithms before the repairs) is kept as the non-vacuity
witness: TLC must find the defects in it."""
import collections, concurrent.futures, json, os, time
import vlib
from vlib import Infra, Violation, log

TRUST = ("Trusted: TLC evaluator, Json/IOUtils community modules, harness projection (leaf iteration, raw node "
         "dump, query battery; shared by both binding directions), the harness' slice KV store used for the "
         "high-volume replay (every 50th behaviour and all recorded histories run on cosmos-sdk MemDB+cachekv), "
         "go -overlay.")
MANIFEST = {
    "engine": "tlc+go-harness", "design_ref": "DESIGN.md section 4 (C16), section 7 items 1-3",
    "technique": "TLA+ spec SumTree.tla (sorted map + B+-tree transcription); TLC exhaustive MC of the refinement; "
                 "one TLC-generated behaviour per transition of the reachable model graph replayed on the real tree; "
                 "recorded random histories trace-validated by TLC",
    "text": "SumTree.tla has the sorted map (queries as folds) and a node-for-node transcription of push/pull/"
            "updateAccumulation/accumulationSplit with fan-out M. TLC proves on bounded scopes (5-7 keys, M=2..5) "
            "that the algorithms (with the four repairs landed in /repo) refine the map for all operations and that "
            "the pre-repair algorithms do not (witness). Every transition of the reachable graph of <<map, store>> "
            "is executed on the real tree over an "
            "in-memory store: Get/PrefixSum/SplitAcc over all probe keys, SubsetAccumulation and (reverse) iteration "
            "over all pairs incl. nil, total, node dump checked for sorted children, accumulation = subtree sum, "
            "reachability, partition, separator nesting; the real node dump is also compared with the model's store "
            "(fidelity). Random histories (m in 2..32, keys of length 0-3 with shared prefixes, negative/zero values, "
            "with and without Remove, NewTree re-opening; fan-outs 255 / 254; 'scaled' histories whose values are small multiples k of a "
            "large unit - 2^61, 10^18, 2^64+1 - so that sums cross 2^63 and 2^64 while the log carries k) are recorded from the real tree and judged line by line "
            "by TLC. Any deviation (answer, panic, leaf set, order, node structure) is a violation.",
    "note": TRUST + " SubsetAccumulation with start > end is outside the statement (no answer demanded).",
}
BUILD = [("./lite/sumtree/", "sumtree")]

MC_CFG = """SPECIFICATION MCSpec
CONSTANTS
  M = %(m)d
  Fix <- %(fix)s
  KeySet <- %(keys)s
  Vals = {%(vals)s}
  Ops = {%(ops)s}
  MaxAbs = %(maxabs)d
  MaxDepth = %(depth)d
  BeyondDefect = %(beyond)s
  WithTotal = %(total)s
VIEW View
%(tail)s
CHECK_DEADLOCK FALSE
"""
KEYSETS = {
    "Keys4": [[], [1], [2], [1, 0]],
    "Keys5": [[], [1], [2], [3], [1, 0]],
    "Keys6": [[], [1], [2], [3], [4], [1, 0]],
    "Keys7": [[], [1], [2], [3], [4], [5], [1, 0]],
    "Keys9": [[], [1], [2], [3], [4], [5], [6], [7], [1, 0]],
}
EXTRA_PROBES = [[0], [1, 1], [9]]
NOREM = '"set", "inc", "dec", "open"'
ALLOPS = '"set", "inc", "dec", "rem", "open"'
NODEC = '"set", "inc", "rem", "open"'

# signature -> what (the proposed known_findings entries are in docs/findings_c16.json)
SIGS = {
    "total:nil-nil": "TotalAccumulatedValue / SubsetAccumulation(nil, nil) return the value at the empty key, not the total",
    "query-panic:index-1:first-child-removed": "SplitAcc / PrefixSum / SubsetAccumulation panic (index out of range [-1]) for a key between a node's key and its first remaining child after Remove of the first child",
    "query-panic:nil-root:all-keys-removed": "every range query panics (nil root) once Remove has deleted the last key, until NewTree is called again",
    "remove:separator-without-node": "Remove that empties a node deletes it but leaves its key as separator in the ancestors; later operations corrupt the tree",
    "remove:accumulation-mismatch": "Remove that merges siblings stores the accumulation of the left node computed before the merge",
}
ORIGIN_DEFECTS = ("separator-without-node", "accumulation-mismatch")
# emptied nodes legally stay in the tree since the fix of Remove (docs/fix_c16_4.diff, landed)
KEEPEMPTY = True
TRACE_CFG_KEEPEMPTY = """SPECIFICATION TraceSpec
CONSTANTS
  M = 2
  Fix <- TKeepEmpty
CONSTRAINT Mark
POSTCONDITION Accepted
CHECK_DEADLOCK FALSE
"""


def mc_cfg(m, fix, keys, ops, tail, vals="1", maxabs=1, depth=80, beyond="TRUE", total="FALSE"):
    return MC_CFG % dict(m=m, fix=fix, keys=keys, vals=vals, ops=ops, maxabs=maxabs, depth=depth, beyond=beyond,
                         total=total, tail=tail)


def classify(d):
    """d: normalised deviation.  Returns a known signature or None (= violation).  All five defects
    once listed in SIGS are repaired in /repo (`fixed:` entries of known_findings.json suppress nothing)."""
    return None


def describe(d):
    if d["kind"] == "structure":
        return "node dump inconsistent after %s: %s" % (d["q"], d["shape"])
    if d["kind"] == "mutation-panic":
        return "%s panicked: %s" % (d["q"], d.get("got"))
    if d["kind"] in ("state", "order"):
        return "leaves after %s are not what the sorted map holds (%s)" % (d["q"], d["kind"])
    return "%s(%s) %s: want %s, got %s" % (d["q"], d["shape"], "panicked" if d["kind"] == "query-panic" else "answered wrongly",
                                           json.dumps(d.get("want"))[:120], json.dumps(d.get("got"))[:120])


# ---------------------------------------------------------------------------

def run_mc(ctx, cov):
    q = ctx.quick
    jobs = []
    # the algorithms as they are in /repo (Fix = AllFixes), all operations: refinement of the sorted map
    # (every query incl. the nil-nil total) + node structure
    for m in ((2, 3, 4) if q else (2, 3, 4, 5)):
        ks = "Keys5" if q else ("Keys6" if m <= 3 else "Keys7")
        jobs.append(("code-allops m=%d %s" % (m, ks),
                     mc_cfg(m, "AllFixes", ks, ALLOPS, "INVARIANTS Refines Structure", total="TRUE")))
    jobs.append(("code-norem m=1 Keys4", mc_cfg(1, "AllFixes", "Keys4", NOREM, "INVARIANTS Refines Structure", total="TRUE")))
    if not q:
        jobs.append(("code-allops m=2 Keys5 vals{1,2}", mc_cfg(2, "AllFixes", "Keys5", ALLOPS, "INVARIANTS Refines Structure",
                                                                 vals="1, 2", maxabs=2, total="TRUE")))
    # witnesses (must fail): the pre-repair algorithms break the refinement / the structure
    wits = [("witness-prefix m=2 total", mc_cfg(2, "NoFix", "Keys4", NOREM, "INVARIANTS Refines", total="TRUE"), "Refines"),
            ("witness-prefix m=2 remove-structure", mc_cfg(2, "NoFix", "Keys5", ALLOPS, "INVARIANTS Structure"), "Structure"),
            ("witness-prefix m=2 remove-queries", mc_cfg(2, "QueryFixes", "Keys5", ALLOPS, "INVARIANTS Refines", total="TRUE"), "Refines")]

    def wit(job):
        name, cfg, inv = job
        r = vlib.tlc("MCSumTree.tla", "mc.cfg", workers=2, timeout=1200, heap="4g", tag="C16-wit", cfg_text=cfg)
        return name, inv, r

    def one(job):
        name, cfg = job
        r = vlib.tlc("MCSumTree.tla", "mc.cfg", workers=4, timeout=2400, heap="6g", tag="C16-mc", cfg_text=cfg)
        return name, r

    with concurrent.futures.ThreadPoolExecutor(max_workers=4) as ex:
        wres = list(ex.map(wit, wits))
        results = list(ex.map(one, jobs))
    states = trans = 0
    cov["mc_runs"] = {}
    cov["mc_witnesses"] = {}
    for name, inv, r in wres:
        if r.error or r.violated != inv:
            raise Infra("non-vacuity witness %s: the pre-repair algorithms were expected to violate %s, got %s"
                        % (name, inv, r.error or r.violated or "no counterexample"))
        cov["mc_witnesses"][name] = {"violated": r.violated, "depth": r.depth}
    log("witnesses: the pre-repair algorithms violate Refines (nil-nil total, queries after Remove) and Structure (as they must)")
    for name, r in results:
        vlib.tlc_must_pass(r, "MCSumTree " + name)
        if r.depth >= 80:
            raise Infra("MCSumTree %s: depth bound reached, the scope is not exhaustive" % name)
        states += r.distinct
        trans += r.generated
        cov["mc_runs"][name] = {"distinct": r.distinct, "generated": r.generated, "depth": r.depth, "wall_s": round(r.wall, 1)}
        log("MC %s: %d distinct / %d generated, depth %d, %.0fs" % (name, r.distinct, r.generated, r.depth, r.wall))
    cov["mc_states"], cov["mc_transitions"] = states, trans
    return states, trans


def norm_replay_dev(d, gen_name):
    return {"leg": "replay", "kind": d["kind"], "q": d["q"], "shape": d["shape"], "want": d["want"], "got": d["got"],
            "gap": d["gaphit"], "noleaves": d["noleaves"], "valempty": d["valempty"],
            "origin": d["origin"], "m": d["m"], "ops": d["ops"], "eff": d.get("eff"), "where": gen_name,
            "len": len(d["ops"]), "count": d["count"]}


def run_replay(ctx, binary, cov, devs):
    q = ctx.quick
    # fan-out 1 is degenerate (the height grows without bound under removals): exercised without Remove only
    if q:
        gens = [(2, "Keys5", NODEC, 2), (3, "Keys6", NODEC, 1), (4, "Keys5", ALLOPS, 1), (1, "Keys4", NOREM, 1)]
    else:
        gens = [(2, "Keys7", NODEC, 1), (2, "Keys5", ALLOPS, 2), (3, "Keys6", ALLOPS, 1), (3, "Keys9", NODEC, 1),
                (4, "Keys6", ALLOPS, 1), (4, "Keys9", NODEC, 1), (5, "Keys7", NODEC, 1), (6, "Keys7", NODEC, 1),
                (1, "Keys5", NOREM, 1)]
    tot = collections.Counter()
    states = trans = 0
    samples = []
    cov["replay_runs"] = {}
    for m, ks, ops, maxabs in gens:
        name = "m=%d %s ops={%s} maxabs=%d" % (m, ks, ops.replace('"', ''), maxabs)
        r = vlib.tlc("MCSumTree.tla", "gen.cfg", workers=8, timeout=3000, heap="12g", tag="C16-gen", keep=True,
                     cfg_text=mc_cfg(m, "AllFixes" if KEEPEMPTY else "NoFix", ks, ops, "ACTION_CONSTRAINT EmitEdge",
                                     maxabs=maxabs, beyond="FALSE"))
        vlib.tlc_must_pass(r, "MCSumTree generator " + name)
        d = os.path.dirname(r.out)
        body, gen = os.path.join(d, "gen.body"), os.path.join(d, "gen.jsonl")
        n = vlib.extract_gen(r.out, body)
        if n == 0:
            raise Infra("generator produced no behaviours")
        with open(gen, "w") as f:
            f.write(json.dumps({"m": m, "probe": KEYSETS[ks] + EXTRA_PROBES}) + "\n")
            with open(body) as g:
                for ln in g:
                    f.write(ln)
        os.remove(body)
        os.remove(r.out)
        sample = os.path.join(d, "sample.ndjson")
        t0 = time.time()
        vlib.run_test(binary, "TestReplay", {"VERIF_IN": gen, "VERIF_OUT": gen + ".result", "VERIF_SAMPLE_OUT": sample,
                                             "VERIF_SAMPLE_EVERY": max(1, n // (60 if q else 300)),
                                             "VERIF_WORKERS": min(vlib.NCPU, 14)}, timeout=3000)
        res = json.load(open(gen + ".result"))
        if res["behaviours"] != n:
            raise Infra("replayed %d of %d behaviours" % (res["behaviours"], n))
        if res["devcount"] != sum(dv["count"] for dv in res["deviations"]):
            raise Infra("deviation classes do not add up")
        for k in ("behaviours", "steps", "queries", "inverted", "inverted_nonzero", "multinode", "model_store_same",
                  "model_store_diff", "devcount"):
            tot[k] += res[k]
        for k, v in res["kinds"].items():
            tot["op:" + k] += v
        tot["maxlevel"] = max(tot["maxlevel"], res["maxlevel"])
        cov["replay_runs"][name] = {"model_states": r.distinct, "behaviours": n, "queries": res["queries"],
                                    "deviations": res["devcount"], "model_store_diff": res["model_store_diff"],
                                    "maxlevel": res["maxlevel"], "tlc_s": round(r.wall, 1), "replay_s": round(time.time() - t0, 1)}
        log("replayed %d behaviours (%s; %d model states) on the real tree: %d queries, %d deviations, node dump = model store in %d/%d, %.0fs+%.0fs"
            % (n, name, r.distinct, res["queries"], res["devcount"], res["model_store_same"], n, r.wall, time.time() - t0))
        if res["model_store_diff"]:
            log("  note: transcription differs from the code on %d final states, e.g. %s"
                % (res["model_store_diff"], json.dumps(res["model_diff_sample"][:1])[:400]))
        for dv in res["deviations"]:
            devs.append(norm_replay_dev(dv, name))
        if not samples:
            with open(gen) as f:
                f.readline()
                samples.append({"spec_behaviour": json.loads(f.readline())})
        states += r.distinct
        trans += r.generated
        # the sampled behaviours, executed with the full event log, judged by TLC
        sdevs, sg, sd, sl = validate_monitor(ctx, sample, "replay-sample " + name)
        tot["sample_lines"] += sl
        # cross-check of the two oracles on the same executions: TLC must see a deviation in the sample iff
        # the Go folds saw one for that behaviour
        devs.extend(sdevs)
        states += sd
        trans += sg
        os.remove(gen)
    cov["replay"] = dict(tot)
    for need in ("op:set", "op:inc", "op:rem", "op:open", "multinode"):
        if tot[need] == 0:
            raise Infra("replay exercised no %s: generator is not covering the property" % need)
    if tot["maxlevel"] < 3:
        raise Infra("replay never built a tree of 3 levels")
    return states, trans, tot, samples


def parse_devs(prints):
    out = []
    for p in prints:
        if p.startswith('<<"DEV", "'):
            s = p[len('<<"DEV", "'):]
            if s.endswith('">>'):
                s = s[:-3]
            out.append(json.loads(json.loads('"' + s + '"')))
    return out


def validate_monitor(ctx, trace, what, parallel=None):
    """Run TraceSumTree over the trace (split at cfg lines, parallel TLC processes); returns
    (normalised deviations, generated, distinct, lines)."""
    parallel = parallel or min(vlib.NCPU, 16)
    chunks = vlib.split_histories(trace, parallel)

    def one(ch):
        p, first, n = ch
        return ch, vlib.tlc("TraceSumTree.tla", "TraceSumTree.cfg", workers=1, timeout=2400, env={"TRACE_FILE": p},
                            heap="3g", tag="C16-trace", cfg_text=TRACE_CFG_KEEPEMPTY if KEEPEMPTY else None)

    with concurrent.futures.ThreadPoolExecutor(max_workers=parallel) as ex:
        results = list(ex.map(one, chunks))
    devs = []
    gen = dist = nlines = 0
    for (p, first, n), r in results:
        if r.error:
            raise Infra("trace validation (%s): %s" % (what, r.error))
        if not r.ok:
            raise Infra("trace validation (%s): the monitor did not consume the whole trace (line %s); see %s"
                        % (what, r.rejected_line, r.out))
        gen += r.generated
        dist += r.distinct
        nlines += n
        ds = parse_devs(r.prints)
        if ds:
            lines = open(p).read().split("\n")
            cache = {}

            def ev_at(i):          # parsed line i (1-based), parsed at most once
                if i not in cache:
                    cache[i] = json.loads(lines[i - 1])
                return cache[i]

            hist_start = {}
            cur = 0
            for i, ln in enumerate(lines):
                if ln.startswith("{") and '"e":"cfg"' in ln[:200] + ln[-200:]:
                    cur = i + 1
                hist_start[i + 1] = cur
            seen = set()
            classes = {}
            for d in ds:
                key = (d["line"], d["kind"], d["qi"])
                if key in seen:
                    continue
                seen.add(key)
                hstart = hist_start[d["line"]]
                nd = {"leg": "trace", "kind": d["kind"], "q": d["q"], "shape": d["shape"], "gap": d["gap"],
                      "noleaves": d["noleaves"], "valempty": d["valempty"],
                      "origin": (d["origin"][0] if d["origin"] else None),
                      "len": d["line"] - hstart, "want": None, "got": None, "count": 1, "_line": d["line"], "_qi": d["qi"]}
                ev = ev_at(d["line"])
                if d["qi"]:
                    qr = ev["q"][d["qi"] - 1]
                    nd["got"] = qr["p"] if not qr["ok"] else (qr["sp"] if qr["q"] == "split" else
                                                              qr["it"] if qr["q"] in ("iter", "riter") else qr["r"])
                elif d["kind"] == "mutation-panic":
                    nd["got"] = ev.get("p")
                org = nd["origin"]
                ck = (nd["kind"], nd["q"], nd["shape"], nd["gap"], nd["noleaves"],
                      (org["a"], org["defect"]) if org else None,
                      nd["got"] if "panic" in nd["kind"] else (nd["got"] == nd["valempty"] if nd["kind"] == "query" and
                                                               isinstance(nd["got"], int) else None))
                if ck in classes:
                    old = classes[ck]
                    n = old["count"] + 1
                    if nd["len"] < old["len"]:
                        classes[ck] = old = nd
                    old["count"] = n
                else:
                    classes[ck] = nd
            for nd in classes.values():
                line, qi = nd.pop("_line"), nd.pop("_qi")
                hstart = hist_start[line]
                cfg = ev_at(hstart)
                ev = ev_at(line)
                nd["m"] = cfg.get("m")
                nd["where"] = "%s line %d (history %s)" % (what, first + line - 1, cfg.get("h"))
                if qi:
                    nd["query"] = {k: v for k, v in ev["q"][qi - 1].items() if k in ("q", "k", "s", "e")}
                elif nd["kind"] in ("state", "order"):
                    nd["got"] = ev.get("leaves")
                # the op list of the history up to this line makes the deviation re-executable
                nd["ops"] = [{"a": e["a"], "k": e["k"], "v": e["v"]} if e["e"] == "op" else {"a": "rebase", "k": [], "v": len(e["leaves"])}
                             for e in (ev_at(i) for i in range(hstart + 1, line + 1))]
                devs.append(nd)
    for p, _, _ in chunks:
        try:
            os.remove(p)
        except OSError:
            pass
    return devs, gen, dist, nlines


def run_trace(ctx, binary, cov, devs):
    nh, nops = (36, 100) if ctx.quick else (480, 400)
    ctx.params = {"histories": nh, "ops": nops}
    d = vlib.scratch("C16-rec")
    trace = os.path.join(d, "sumtree.ndjson")
    vlib.run_test(binary, "TestRecord", {"VERIF_OUT": trace, "VERIF_SEED": ctx.seed, "VERIF_HISTORIES": nh,
                                         "VERIF_OPS": nops}, timeout=2400)
    kinds = collections.Counter()
    fan = collections.Counter()
    samples = []
    qn = 0
    maxnodes = 0
    with open(trace) as f:
        for i, ln in enumerate(f):
            e = json.loads(ln)
            if e["e"] == "cfg":
                fan[e["m"]] += 1
                continue
            if e["e"] == "rebase":
                kinds["rebase:m=%d" % e["m"]] += 1
                continue
            kinds[e["a"] + ("" if e["ok"] else ":panic")] += 1
            qn += len(e["q"])
            maxnodes = max(maxnodes, len(e["nodes"]))
            if len(samples) < 2 and i > 3:
                e2 = dict(e, q=e["q"][:4], note="battery truncated in this sample")
                samples.append({"trace_event": e2})
    for need in ("set", "inc", "dec", "rem", "open", "rebase:m=255", "rebase:m=254"):
        if kinds[need] == 0:
            raise Infra("recorder produced no successful %s: driver is not exercising the property" % need)
    if maxnodes < 4:
        raise Infra("recorder never built a tree with several nodes")
    tdevs, g, dd, nlines = validate_monitor(ctx, trace, "recorded")
    devs.extend(tdevs)
    log("validated %d recorded events (%d query answers) of %d histories against TraceSumTree: %d deviations"
        % (nlines, qn, nh, len(tdevs)))
    cov["trace"] = {"histories": nh, "events": nlines, "query_answers": qn, "event_kinds": dict(kinds),
                    "fanouts": {str(k): v for k, v in sorted(fan.items())}, "deviations": len(tdevs), "max_nodes": maxnodes}
    return g, dd, nh, nlines, samples


def verdict(ctx, devs, cov):
    """Known classes go through ctx.finding; anything else is a violation (reported first)."""
    by = collections.defaultdict(list)
    unknown = []
    for d in devs:
        s = classify(d)
        if s is None:
            unknown.append(d)
        else:
            by[s].append(d)
    cov["deviations_by_signature"] = {k: sum(x.get("count", 1) for x in v) for k, v in by.items()}
    cov["deviations_unclassified"] = sum(x.get("count", 1) for x in unknown)
    if unknown:
        unknown.sort(key=lambda d: (d["len"], d["leg"]))
        d = unknown[0]
        org = d.get("origin")
        sig = ("structure:%s:first-seen-at-%s" % (org["defect"], org["a"])) if org else \
              "%s:%s:%s" % (d["kind"], d["q"], d["shape"])
        kinds = collections.Counter()
        for x in unknown:
            kinds["%s:%s:%s" % (x["kind"], x["q"], x["shape"])] += x.get("count", 1)
        raise Violation("C16", "the real sum-tree deviates from the sorted map (%s leg, m=%s, %d ops): %s"
                        % (d["leg"], d.get("m"), d["len"], describe(d)),
                        {"deviation": d, "unclassified_count": len(unknown), "unclassified_kinds": dict(kinds.most_common(12)),
                         "offending_event": json.dumps({"m": d.get("m"), "ops": d.get("ops")})[:2000]}, sig)
    for s in sorted(by):
        ds = sorted(by[s], key=lambda d: (d["len"], d["leg"]))
        d = ds[0]
        n = sum(x.get("count", 1) for x in ds)
        log("deviation class %s: %d occurrences; shortest: m=%s ops=%s -> %s"
            % (s, n, d.get("m"), json.dumps(d.get("ops"))[:300], describe(d)))
        ctx.finding(s, SIGS[s], {"deviation": d, "occurrences": n,
                                 "offending_event": json.dumps({"m": d.get("m"), "ops": d.get("ops")})[:2000]})


def run(ctx):
    extra = os.environ.get("VERIF_KNOWN_FINDINGS_EXTRA")      # development aid: proposed entries not yet merged
    if extra and os.path.exists(extra):
        ctx.known = ctx.known + [f for f in json.load(open(extra)).get("findings", [])
                                 if f.get("property") == "C16" and f.get("status") == "open"]
    cov = {"samples": []}
    ctx.leg = "mc"
    states, trans = run_mc(ctx, cov)
    binary = vlib.build_test("./lite/sumtree/", "sumtree")
    devs = []
    ctx.leg = "replay"
    s2, t2, tot, samples = run_replay(ctx, binary, cov, devs)
    cov["samples"] += samples
    ctx.leg = "trace"
    g3, d3, nh, nlines, samples = run_trace(ctx, binary, cov, devs)
    cov["samples"] += samples
    cov.update({"states": states + s2 + d3, "transitions": trans + t2 + g3,
                "traces_validated_against_impl": nh + tot["behaviours"],
                "recorded_histories": nh, "recorded_events": nlines,
                "spec_behaviours_replayed": tot["behaviours"], "queries_compared_in_replay": tot["queries"],
                "inverted_ranges_not_judged": tot["inverted"], "inverted_ranges_nonzero_answer": tot["inverted_nonzero"],
                "checker_cmd": "bin/check C16 --tier " + ctx.tier})
    ctx.leg = "verdict"
    verdict(ctx, devs, cov)
    cov["known_findings_hit"] = dict(ctx.known_hit)
    vlib.write_evidence("C16", ctx.tier, ctx.seed, "model_checking", cov, time.time() - ctx.t0,
                        ["TLC evaluator; Json/IOUtils community modules",
                         "harness projection: leaves through the public iterator, raw node dump of the store the harness owns, query battery",
                         "replay runs on a persistent slice KV store of the harness (every 50th behaviour, the TLC-judged sample and all recorded histories on cosmos-sdk MemDB + cachekv); each mutation is rolled back if it panics",
                         "SubsetAccumulation(start > end) is outside the statement; answers are counted, not judged",
                         "deviations in a history after a structural defect first caused by Remove are attributed to that defect"])


def evidence_on_violation(ctx, v):
    vlib.write_evidence("C16", ctx.tier, ctx.seed, "model_checking",
                        {"evaluations": 1, "distinct_nontrivial": 2, "samples": [v.what],
                         "explanation": "violation found in leg " + str(ctx.leg)}, time.time() - ctx.t0, [], 1)
