"""C12 - fixed-point arithmetic (BigDec, 36 decimals; Dec = sdk LegacyDec, 18 decimals) is exactly
rounded in the direction the name of each operation selects; mutating = non-mutating; operands
untouched; results beyond the bound fail; encodings round-trip.
Spec: spec/DecOps.tla.  Legs: exhaustive TLC of the bounded model at scale 10^2 / 10^1
(MCDecOps: the relational rounding predicates single out exactly one result, bracket the exact
quotient and agree with definitions by \\div); impl->spec validation by TLC (TraceDecOps, BigNum
arithmetic at the real scales) of calls recorded from the real methods on operands across the whole
magnitude range.  Events are independent calls, so there is no spec->impl replay leg."""
import collections, concurrent.futures, json, os, re, time
import vlib
from vlib import Infra, Violation, log

TRUST = ("Trusted: TLC evaluator, Json/IOUtils community modules, BigNum java override (differential-tested "
         "against the TLA+ definitions by `bin/check setup`), harness encoding of big.Int operands, go -overlay.")
MANIFEST = {
    "engine": "tlc+go-harness", "design_ref": "DESIGN.md section 4 (C12), 3.3",
    "technique": "TLA+ spec DecOps.tla over an abstract number interface; TLC exhaustive MC with native integers at scale 100/10; calls recorded from the real BigDec/Dec methods validated by TLC with BigNum arithmetic at scale 10^36/10^18",
    "text": "DecOps.tla gives every public arithmetic/conversion/codec method of osmomath.BigDec and of Dec (LegacyDec) a meaning "
            "(numerator, denominator, rounding mode selected by its name: exact, toward zero, toward +infinity, nearest-even of the "
            "quotient truncated at twice the precision) with relational rounding predicates. MCDecOps checks on every operand pair "
            "of -R..R (R=40 quick; 120 all operations + 300 core operations thorough) that the predicates admit exactly one result, that it "
            "brackets the exact quotient and equals the \\div definition, that failed calls had no representable result and that the "
            "mutating twin agrees. The recorder calls every method (plus its mutating twin) on operands from 1 ulp to the 1144-bit / "
            "2^256*10^18 bounds, both signs, ties and their neighbours, powers of ten/two, exact quotients, products of less than three units in the last place with every sign combination, overflow edges, aliased "
            "receivers; codec probes also between the last power of ten and the decoders' bit bound, at the bound and at every digit-count "
            "edge, both signs; every result object of a non-mutating form is updated in place after its value was taken, so that a result "
            "sharing storage with an operand shows as a changed operand; TLC validates each recorded call (result, bound, operands "
            "before/after, twin equality, codec round trip).",
    "note": TRUST + " Operations with no rounding name (Power, Log, Sqrt, SigFigRound) belong to C13 and are not covered here.",
}
BUILD = [("./lite/decops/", "decops")]

MC_CFG = """SPECIFICATION MCSpec
CONSTANTS
  NAdd <- IAdd
  NSub <- ISub
  NMul <- IMul
  NNeg <- INeg
  NCmp <- ICmp
  NQuoT <- IQuoT
  NEven <- IEven
  NOfInt <- IOfInt
  NPow10 <- IPow10
  Digits <- MCDigits
  Bounds <- MCBounds
  R = %(r)d
  W = 3
  Fams = {%(fams)s}
  Sel = {%(sel)s}
INVARIANTS Exact ModelOK
PROPERTIES TwinAgree
CHECK_DEADLOCK FALSE
"""
CORE = ["Add", "Mul", "MulTruncate", "MulRoundUp", "Quo", "QuoTruncate", "QuoRoundUp", "QuoInt"]

# every method the recorder must have exercised (non-vacuity)
BD_OPS = ("Add AddMut Sub SubMut Mul MulMut MulTruncate MulRoundUp MulDec MulDecMut MulTruncateDec MulRoundUpDec MulInt MulInt64 "
          "Quo QuoMut QuoTruncate QuoTruncateMut QuoRoundUp QuoRoundUpMut QuoTruncateDec QuoTruncateDecMut QuoByDecRoundUp "
          "QuoRoundUpNextIntMut QuoRaw QuoInt QuoInt64 Neg NegMut Abs AbsMut Ceil CeilMut TruncateDec TruncateInt TruncateInt64 "
          "RoundInt RoundInt64 Dec DecRoundUp DecWithPrecision ChopPrecision ChopPrecisionMut BigDecFromDec BigDecFromDecMut "
          "BigDecFromSDKInt NewBigDecFromDecMulDec DivIntByU64.Up DivIntByU64.Down DivIntByU64.Bankers "
          "RT.String RT.YAML RT.JSON RT.Marshal RT.MarshalTo RT.Amino").split()
DEC_OPS = ("Add AddMut Sub SubMut Mul MulMut MulTruncate MulTruncateMut MulRoundUp MulRoundUpMut MulInt MulIntMut MulInt64 "
           "MulInt64Mut Quo QuoMut QuoTruncate QuoTruncateMut QuoRoundUp QuoRoundupMut QuoInt QuoIntMut QuoInt64 QuoInt64Mut "
           "Neg NegMut Abs AbsMut Ceil TruncateDec TruncateInt TruncateInt64 RoundInt RoundInt64 "
           "RT.String RT.JSON RT.Marshal RT.MarshalTo").split()
TYPE = {"bd": "BigDec", "dec": "Dec"}
UNARY = set("Neg NegMut Abs AbsMut Ceil CeilMut TruncateDec TruncateInt TruncateInt64 RoundInt RoundInt64 Dec DecRoundUp "
            "DecWithPrecision ChopPrecision ChopPrecisionMut BigDecFromDec BigDecFromDecMut BigDecFromSDKInt "
            "RT.String RT.YAML RT.JSON RT.Marshal RT.MarshalTo RT.Amino".split())
SGN = {1: "pos", 0: "zero", -1: "neg"}


def val(b):
    x = 0
    for limb in reversed(b["m"]):
        x = x * 10000 + limb
    return x * b["s"]


def signature(ev, reasons):
    """operation + violated clauses + argument shape (what a known finding is keyed by)"""
    op = ev["op"]
    a, b = val(ev["a"]), val(ev["b"])
    if ev["alias"]:
        shape = "alias"
    elif op.startswith("DivIntByU64"):
        shape = "%s/%s" % (SGN[ev["a"]["s"]], "u>=2^63" if b >= 2 ** 63 else "u<2^63")
    elif reasons == ["codec"]:
        lim = 1024 if ev["t"] == "bd" else 256
        shape = "bitlen>%d" % lim if abs(a).bit_length() > lim else "bitlen<=%d" % lim
    elif reasons == ["bound"]:
        shape = "result-beyond-bound"
    elif op in UNARY:
        shape = SGN[ev["a"]["s"]]
    else:
        shape = "%s/%s" % (SGN[ev["a"]["s"]], SGN[ev["b"]["s"]])
    return "%s.%s:%s:%s" % (TYPE.get(ev["t"], ev["t"]), op, "+".join(reasons), shape)


def fmt_event(ev):
    d = {k: ev[k] for k in ("t", "op", "p", "alias", "pair", "ok", "err")}
    for k in ("a", "b", "r", "a2", "b2"):
        d[k] = str(val(ev[k]))
    return d


RE_BAD = re.compile(r'<<"C12BAD", (\d+), \{(.*)\}>>')


def monitor(trace, nchunks, parallel):
    """TLC (TraceDecOps, monitor configuration) over the whole trace in chunks; returns
    (generated, distinct, lines, [(trace_line, [violated clauses])])."""
    chunks = vlib.split_histories(trace, nchunks)

    def one(ch):
        return ch, vlib.tlc("TraceDecOps.tla", "TraceDecOpsMonitor.cfg", workers=1, timeout=1800,
                            env={"TRACE_FILE": ch[0]}, heap="2g", tag="C12-trace")

    with concurrent.futures.ThreadPoolExecutor(max_workers=parallel) as ex:
        results = list(ex.map(one, chunks))
    gen = dist = lines = 0
    bad = []
    for (p, first, n), r in results:
        if r.error or not r.ok:
            raise Infra("trace validation TraceDecOps: %s (see %s)" % (r.error or "trace not consumed", r.out))
        gen, dist, lines = gen + r.generated, dist + r.distinct, lines + n
        for pr in r.prints:
            m = RE_BAD.match(pr)
            if m:
                bad.append((first + int(m.group(1)) - 1, sorted(re.findall(r'"([^"]+)"', m.group(2)))))
    for p, _, _ in chunks:
        try:
            os.remove(p)
        except OSError:
            pass
    return gen, dist, lines, bad


def coverage_stats(trace, deep_limit):
    """what the recorder exercised (evidence and non-vacuity only - never a verdict)"""
    per_op = collections.Counter()
    st = collections.Counter()
    samples = []
    S = {"bd": 10 ** 36, "dec": 10 ** 18}
    with open(trace) as f:
        for i, ln in enumerate(f):
            if not ln.startswith('{"e":"op"'):
                continue
            if i > deep_limit:
                m = re.match(r'\{"e":"op","t":"(\w+)","op":"([\w.]+)"', ln)
                per_op[m.group(1) + "." + m.group(2)] += 1
                continue
            ev = json.loads(ln)
            per_op[ev["t"] + "." + ev["op"]] += 1
            if len(samples) < 3:
                samples.append({"trace_event": fmt_event(ev)})
            a, b, r = val(ev["a"]), val(ev["b"]), val(ev["r"])
            s = S[ev["t"]]
            st["ok" if ev["ok"] else "failed"] += 1
            st["alias"] += ev["alias"]
            st["pair"] += ev["pair"]
            if ev["op"] not in UNARY:
                st["signs:%s/%s" % (SGN[ev["a"]["s"]], SGN[ev["b"]["s"]])] += 1
            if not ev["ok"] and (b != 0 or ev["op"] in UNARY) and not ev["op"].startswith("RT."):
                st["failed_nonzero_divisor"] += 1
            if ev["ok"] and abs(r).bit_length() >= (1140 if ev["t"] == "bd" else 312):
                st["result_in_top_bits"] += 1
            if abs(a).bit_length() > 1024:
                st["operand_above_1024_bits"] += 1
            if abs(a) <= 3:
                st["operand_within_3_ulp"] += 1
            if ev["op"] in ("Mul", "MulMut", "MulTruncate", "MulRoundUp"):
                rem = abs(a * b) % s
                st["mul_tie"] += rem * 2 == s
                st["mul_exact"] += rem == 0
                st["mul_next_to_tie"] += 0 < abs(rem * 2 - s) <= 2 * max(1, min(abs(a), abs(b))) and rem * 2 != s
            if ev["op"] in ("Quo", "QuoMut") and b != 0:
                t = abs(a) * s * s // abs(b)
                st["quo_tie_at_2P_digits"] += t % s * 2 == s
                st["quo_tie_only_after_truncation"] += t % s * 2 == s and (abs(a) * s * s) % abs(b) != 0
            if ev["op"] in ("QuoTruncate", "QuoRoundUp", "QuoTruncateMut", "QuoRoundUpMut") and b != 0:
                st["quo_exact" if (a * s) % b == 0 else "quo_inexact"] += 1
            if ev["op"] in ("RoundInt", "RoundInt64"):
                st["roundint_tie"] += abs(a) % s * 2 == s
    return per_op, st, samples


def run(ctx):
    q = ctx.quick
    cov = {"samples": []}
    # 1. design: exhaustive check of the specification operators on the bounded model
    ctx.leg = "mc"
    mcs = [(40, '"bd", "dec"', [])] if q else [(120, '"bd", "dec"', []), (300, '"bd"', CORE)]
    states = trans = 0
    for r_, fams, sel in mcs:
        res = vlib.tlc("MCDecOps.tla", "mc.cfg", workers=vlib.NCPU, timeout=3000, heap="12g", tag="C12-mc",
                       cfg_text=MC_CFG % dict(r=r_, fams=fams, sel=", ".join('"%s"' % s for s in sel)))
        vlib.tlc_must_pass(res, "MCDecOps R=%d" % r_)
        expect = 2 * r_ + 1
        ndom = 0
        for pr in res.prints:
            if pr.startswith('<<"DOM"'):
                na, nb, np_, ntw = [int(x) for x in re.findall(r"-?\d+", pr.split('",')[-1])][-4:]
                expect += na * nb * np_ * (1 + ntw)
                ndom += 1
        if ndom == 0 or res.distinct != expect:
            raise Infra("MCDecOps R=%d: %d distinct states but %d operand combinations: some defined call has no (or more "
                        "than one) admitted outcome - specification error" % (r_, res.distinct, expect))
        states += res.distinct
        trans += res.generated
        log("MC R=%d fams=%s ops=%s: %d distinct states = every operand combination exactly once, %.0fs"
            % (r_, fams, "all" if not sel else len(sel), res.distinct, res.wall))
    cov["mc_states"], cov["mc_transitions"] = states, trans

    # 2. impl -> spec: calls recorded from the real methods, validated call by call
    ctx.leg = "trace"
    binary = vlib.build_test("./lite/decops/", "decops")
    nev, chunk = (20000, 2000) if q else (500000, 2000)
    ctx.params = {"events": nev}
    d = vlib.scratch("C12-rec")
    trace = os.path.join(d, "decops.ndjson")
    t1 = time.time()
    vlib.run_test(binary, "TestRecord", {"VERIF_OUT": trace, "VERIF_SEED": ctx.seed, "VERIF_EVENTS": nev,
                                         "VERIF_CHUNK": chunk})
    per_op, st, samples = coverage_stats(trace, 60000)
    cov["samples"] += samples
    for fam, ops in (("bd", BD_OPS), ("dec", DEC_OPS)):
        for op in ops:
            if per_op.get(fam + "." + op, 0) == 0:
                raise Infra("recorder produced no %s.%s call: driver is not exercising the property" % (fam, op))
    for need in ("ok", "failed", "failed_nonzero_divisor", "alias", "pair", "signs:neg/neg", "signs:neg/pos", "signs:pos/neg",
                 "signs:pos/pos", "result_in_top_bits", "operand_above_1024_bits", "operand_within_3_ulp", "mul_tie",
                 "mul_exact", "quo_tie_at_2P_digits", "quo_tie_only_after_truncation", "quo_exact", "quo_inexact",
                 "roundint_tie"):
        if st.get(need, 0) == 0:
            raise Infra("recorder produced no '%s' situation: driver is not exercising the property" % need)
    log("recorded %d calls of %d methods in %.0fs" % (sum(per_op.values()), len(per_op), time.time() - t1))

    t1 = time.time()
    gen_, dist_, nlines, bad = monitor(trace, nchunks=max(1, nev // 8000), parallel=min(vlib.NCPU, 16))
    log("TLC validated %d recorded lines against TraceDecOps in %.0fs: %d calls deviate" % (nlines, time.time() - t1, len(bad)))

    # 3. classify every deviation by signature; anything not a listed open finding is a violation
    lines = None
    groups = collections.OrderedDict()
    if bad:
        lines = open(trace).read().split("\n")
    for ln, reasons in sorted(bad):
        ev = json.loads(lines[ln - 1])
        if "domain" in reasons or "unknown-op" in reasons:
            raise Infra("harness emitted a call outside the specification's domain at line %d: %s %s"
                        % (ln, reasons, lines[ln - 1][:300]))
        sig = signature(ev, reasons)
        g = groups.setdefault(sig, {"count": 0, "first_line": ln, "event": ev, "reasons": reasons, "size": 10 ** 9})
        g["count"] += 1
        size = len(lines[ln - 1])
        if size < g["size"]:      # keep the smallest example of each signature
            g.update(first_line=ln, event=ev, size=size)
    for sig, g in groups.items():
        log("deviation %-58s x%-5d e.g. %s" % (sig, g["count"], json.dumps(fmt_event(g["event"]))[:420]))
    cov["deviations"] = {sig: g["count"] for sig, g in groups.items()}
    unknown = [s for s in groups if s not in {f.get("signature") for f in ctx.known}]
    for sig, g in groups.items():
        ev = g["event"]
        ctx.finding(sig, "%s %s.%s violates C12 (%s) on a recorded call: a=%s b=%s p=%d alias=%s -> ok=%s r=%s"
                    % (sig, TYPE[ev["t"]], ev["op"], ", ".join(g["reasons"]), val(ev["a"]), val(ev["b"]), ev["p"],
                       ev["alias"], ev["ok"], val(ev["r"])),
                    {"spec": "TraceDecOps.tla", "cfg": "TraceDecOpsMonitor.cfg", "trace_line": g["first_line"],
                     "violated_clauses": g["reasons"], "occurrences": g["count"],
                     "offending_event": json.dumps(fmt_event(ev)), "raw_event": lines[g["first_line"] - 1],
                     "all_unlisted_signatures": unknown,
                     "all_deviations": {s: x["count"] for s, x in groups.items()}})

    cov.update({"states": states + dist_, "transitions": trans + gen_,
                "traces_validated_against_impl": nlines, "recorded_calls": sum(per_op.values()),
                "calls_per_method": dict(sorted(per_op.items())), "situations_in_first_60000_calls": dict(sorted(st.items())),
                "known_findings_hit": dict(ctx.known_hit),
                "checker_cmd": "bin/check C12 --tier " + ctx.tier})
    vlib.write_evidence("C12", ctx.tier, ctx.seed, "model_checking", cov, time.time() - ctx.t0,
                        ["TLC evaluator; Json/IOUtils community modules; BigNum java override (differential-tested in setup)",
                         "the harness reads raw operands/results through BigInt()/BigIntMut copies and encodes them as base-10^4 limbs",
                         "operands are built fresh for every call; a mutating twin is called on equal, separately built operands",
                         "bounded model at scale 10^2/10^1 validates the specification operators, not the implementation"])


def evidence_on_violation(ctx, v):
    vlib.write_evidence("C12", ctx.tier, ctx.seed, "model_checking",
                        {"evaluations": 1, "distinct_nontrivial": 2, "samples": [v.what],
                         "explanation": "violation found in leg " + str(ctx.leg)}, time.time() - ctx.t0, [], 1)
