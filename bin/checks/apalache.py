"""Design-level UNBOUNDED legs (C17, C18, C09): inductive-invariant checks of the typed sub-models in
spec/apa with Apalache, and TLAPS proofs where one exists.

What a leg establishes is about the SPECIFICATION only (an invariant of an integer sub-model of the base spec,
for all parameter values and all behaviour lengths); the binding to the Go code stays with the TLC trace /
replay legs of each check.  Therefore nothing here ever raises a Violation: an unexpected outcome, a tool
failure or a timeout is Infra (exit 2) - the sub-model or its invariant needs attention.

A run consists of
  initiation    Init    => IndInv                      (--init=Init    --inv=IndInv --length=0)
  consecution   IndInv /\\ Next => IndInv' (+ the step properties as action invariants)
                                                       (--init=IndInit --inv=IndInv,StepProperty --length=1)
  implication   IndInv  => Property                    (--init=IndInit --inv=Property --length=0)
  must-fail     consecution with a deliberately broken Next (--next=NextBroken...) MUST report Error:
                the non-vacuity leg (IndInit is satisfiable, the action is enabled, the invariant bites).
All calls run in a scratch copy of spec/apa under build/run (removed afterwards), at most MAXPAR at a time,
each under a timeout.  VERIF_NO_APALACHE=1 skips the whole leg."""
import concurrent.futures, glob, os, re, shutil, signal, subprocess, threading, time
import vlib
from vlib import Infra, log

APA = os.path.join(vlib.SPEC, "apa")
MAXPAR = 4            # shared machine: at most 4 tool processes at a time
TIMEOUT = 90          # per tool call; measured 4-10 s each (Apalache), 10 s (tlapm)

_n = [0]
_lock = threading.Lock()


def skipped():
    return os.environ.get("VERIF_NO_APALACHE", "") not in ("", "0")


def scratch(tag):
    """a fresh copy of spec/apa (named so that vlib.cleanup_scratch also finds it)"""
    with _lock:
        _n[0] += 1
        n = _n[0]
    d = os.path.join(vlib.BUILD, "run", "%s-apa-%d-%d" % (tag, os.getpid(), n))
    os.makedirs(os.path.join(d, "tmp"))
    for f in glob.glob(os.path.join(APA, "*.tla")):
        shutil.copy(f, d)
    return d


def leg(name, init, inv, length, next_=None, expect="NoError", why=None):
    return {"name": name, "init": init, "inv": inv, "length": length, "next": next_, "expect": expect, "why": why}


def standard_legs(broken, step="StepProperty"):
    """initiation, consecution, implication + one must-fail consecution per (NextBrokenX, invariants it must break, why)"""
    cons = "IndInv" + ("," + step if step else "")
    legs = [leg("initiation", "Init", "IndInv", 0),
            leg("consecution", "IndInit", cons, 1),
            leg("implication", "IndInit", "Property", 0)]
    for nxt, inv, why in broken:
        legs.append(leg("must-fail:" + nxt, "IndInit", inv, 1, next_=nxt, expect="Error", why=why))
    return legs


RE_OUT = re.compile(r"The outcome is: (\w+)")
RE_VER = re.compile(r"# APALACHE version: (\S+)")
RE_VIOL = re.compile(r"(state|action) invariant \d+ violated")


def _env(d):
    e = dict(os.environ)
    e.pop("JAVA_TOOL_OPTIONS", None)
    e["TMPDIR"] = os.path.join(d, "tmp")      # SANY's temporary directories stay inside the scratch copy
    e.setdefault("JVM_ARGS", "-Xmx2g")
    return e


def _tool(cmd, d, timeout):
    """run a tool in its own process group; on timeout the whole group (tlapm's provers, the JVM) is killed"""
    p = subprocess.Popen(cmd, cwd=d, env=_env(d), stdout=subprocess.PIPE, stderr=subprocess.STDOUT, text=True, start_new_session=True)
    try:
        out, _ = p.communicate(timeout=timeout)
    except subprocess.TimeoutExpired:
        try:
            os.killpg(p.pid, signal.SIGKILL)
        except OSError:
            pass
        p.communicate()
        raise
    return p.returncode, out


def run_apalache(d, module, lg, k, timeout=TIMEOUT):
    out = os.path.join(d, "out%d" % k)
    cmd = ["apalache-mc", "check", "--init=" + lg["init"], "--inv=" + lg["inv"], "--length=%d" % lg["length"]]
    if lg["next"]:
        cmd.append("--next=" + lg["next"])
    cmd += ["--out-dir=" + out, module]
    t0 = time.time()
    try:
        rc, txt = _tool(cmd, d, timeout)
    except subprocess.TimeoutExpired:
        raise Infra("apalache %s %s timed out after %ds (%s)" % (module, lg["name"], timeout, " ".join(cmd)))
    except OSError as ex:
        raise Infra("apalache-mc could not be started: %s" % ex)
    m = RE_OUT.search(txt)
    res = dict(lg, outcome=m.group(1) if m else None, wall_s=round(time.time() - t0, 1), cmd=" ".join(cmd[:-2] + [module]))
    v = RE_VER.search(txt)
    res["version"] = v.group(1) if v else None
    if res["outcome"] not in ("NoError", "Error") or (res["outcome"] == "Error" and not RE_VIOL.search(txt)):
        # parse / type errors, solver 'unknown', deadlock reports ...: the tool did not decide the question
        tail = [ln for ln in txt.split("\n") if ln.strip()][-12:]
        raise Infra("apalache %s %s: no verdict (exit %d): %s" % (module, lg["name"], rc, " | ".join(tail)[-1500:]))
    if res["outcome"] == "Error":
        m = RE_VIOL.search(txt)
        res["violated"] = m.group(0)
        for f in glob.glob(os.path.join(out, "*", "*", "violation1.tla")):
            t = open(f).read()
            i = t.find("InvariantViolation ==")
            if i >= 0:
                res["violation_formula"] = re.sub(r"\s+", " ", t[i:t.find("====", i)]).strip()[:600]
    return res


RE_TLAPS_OK = re.compile(r"All (\d+) obligations? proved")
RE_TLAPS_FAIL = re.compile(r"(\d+)/(\d+) obligations? failed")


def run_tlapm(d, module, timeout=TIMEOUT * 2, threads=4):
    cmd = ["tlapm", "--threads", str(threads), "--cleanfp", module]
    t0 = time.time()
    try:
        rc, txt = _tool(cmd, d, timeout)
    except subprocess.TimeoutExpired:
        raise Infra("tlapm %s timed out after %ds" % (module, timeout))
    except OSError as ex:
        raise Infra("tlapm could not be started: %s" % ex)
    res = {"tool": "tlapm", "module": module, "cmd": " ".join(cmd), "wall_s": round(time.time() - t0, 1)}
    m = RE_TLAPS_OK.search(txt)
    if m and rc == 0:
        res.update(obligations=int(m.group(1)), discharged=int(m.group(1)))
        return res
    m = RE_TLAPS_FAIL.search(txt)
    tail = [ln for ln in txt.split("\n") if ln.strip()][-10:]
    raise Infra("tlapm %s: %s (exit %d): %s" % (module, ("%s of %s obligations failed" % (m.group(1), m.group(2))) if m else "no verdict",
                                               rc, " | ".join(tail)[-1500:]))


def run(prop, module, legs, tlaps=None, theorems=None):
    """Run the Apalache legs of `module` (and tlapm on `tlaps`).  Returns {"apalache": {...}[, "tlaps": {...}]} for the
    evidence; raises Infra when a leg does not end as expected."""
    t0 = time.time()
    d = scratch(prop)
    jobs = [("apa", k, lg) for k, lg in enumerate(legs)] + ([("tlaps", 0, None)] if tlaps else [])

    def one(job):
        kind, k, lg = job
        return run_apalache(d, module, lg, k) if kind == "apa" else run_tlapm(d, tlaps)
    try:
        with concurrent.futures.ThreadPoolExecutor(max_workers=MAXPAR) as ex:
            futs = [ex.submit(one, j) for j in jobs]
            results = []
            for f in futs:
                results.append(f.result())        # the first Infra propagates; the pool drains (every call has a timeout)
    finally:
        keep = os.environ.get("VERIF_KEEP_APALACHE")
        if not keep:
            shutil.rmtree(d, ignore_errors=True)
    apa = [r for r in results if "outcome" in r]
    bad = [r for r in apa if r["outcome"] != r["expect"]]
    for r in apa:
        log("apalache %s %-28s %-7s (expected %s) %.1fs%s" % (module, r["name"], r["outcome"], r["expect"], r["wall_s"],
                                                            (" - " + r["violated"]) if r.get("violated") else ""))
    if bad:
        r = bad[0]
        if r["expect"] == "NoError":
            raise Infra("apalache %s %s: model-level counterexample (%s; %s) - the sub-model or its inductive invariant needs "
                        "attention (design level, not a verdict about the code): %s"
                        % (module, r["name"], r.get("violated"), r.get("violation_formula"), r["cmd"]))
        raise Infra("apalache %s %s: the deliberately broken variant was NOT rejected - the inductive check is vacuous or too "
                    "weak: %s" % (module, r["name"], r["cmd"]))
    ev = {"apalache": {
        "tool": "apalache-mc " + str(apa[0].get("version")) if apa else "apalache-mc", "module": "spec/apa/" + module,
        "obligations": len(apa), "discharged": len(apa) - len(bad),
        "must_fail_variants": sum(1 for r in apa if r["expect"] == "Error"),
        "wall_s": round(time.time() - t0, 1),
        "legs": [{k: r[k] for k in ("name", "init", "inv", "next", "length", "expect", "outcome", "wall_s", "why", "violated",
                                    "violation_formula") if r.get(k) is not None} for r in apa]}}
    for r in results:
        if r.get("tool") == "tlapm":
            r["module"] = "spec/apa/" + r["module"]
            if theorems:
                r["theorems"] = theorems
            log("tlapm %s: all %d obligations proved in %.1fs" % (tlaps, r["obligations"], r["wall_s"]))
            ev["tlaps"] = r
    return ev

