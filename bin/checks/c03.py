"""C03 - concentrated swaps follow the curve, round in the pool's favour, match quotes.
Spec: spec/CLSwapIdeal.tla (exact rational curve walker).  Legs: exhaustive TLC check of the
walker's algebraic laws on a tiny grid (the oracle itself); every swap of recorded histories of a
real pool compared with the walker by TraceCLSwap (direction, bounded rounding, estimate = result,
estimates and failed swaps leave state untouched, round trip <= input)."""
import json, os, time
import vlib, checks.clcommon as clc
from vlib import Infra, Violation, log

MANIFEST = {
    "engine": "tlc+go-harness", "design_ref": "DESIGN.md section 4 (C03)",
    "technique": "TLA+ exact-rational curve walker (CLSwapIdeal.tla, BigNum) model-checked for the curve laws; every recorded swap of the real pool validated against it by TLC",
    "text": "CLSwapIdeal.tla walks the piecewise constant-liquidity curve through the logged initialised ticks with the logged spread factor in exact rationals. TLC checks the walker itself exhaustively on a tiny grid (split = whole, exact-out inverts exact-in, round trip <= input with equality iff no fee, monotone). For every swap recorded from a real pool (all spacings / default spread factors incl. 0 and, every fifth history, governance-authorised ones of 0.5 .. 0.95, prices 1e-11..1e11, 1 unit .. beyond draining, both directions and kinds, crossing many ticks, hitting the price limit) TLC requires: paid <= Ideal(charged).out and >= floor(Ideal(charged-k).out)-k (exact-out symmetric) with k = 2 units per bucket touched (counted in units of 1 + floor(f/(1-f)): one unit of rounding in the curve amount costs 1/(1-f) units of charge); by price, with no dust at all: for the move from the logged pre-swap to the logged post-swap sqrt price the curve prescribes an input (fee included) and an output - charged >= that input, paid <= that output; executed result = estimate on the same state, estimate and failed swaps leave the whole projected state unchanged, there-and-back <= input.",
    "note": "Trusted: TLC, BigNum override, harness projection; tick sqrt prices are taken from the implementation (C14). The dust bound k is calibrated: Dust=1 passes the recorded histories, Dust=0 fails; registered value 2.",
}
BUILD = clc.BUILD


def run(ctx):
    q = ctx.quick
    ctx.leg = "mc"
    liqs = "{1, 3}" if q else "{1, 2, 3}"
    r = vlib.tlc("MCCLSwapIdeal.tla", "mc.cfg", workers=vlib.NCPU, timeout=3000, heap="10g", tag="C03-mc",
                 cfg_text="SPECIFICATION Spec\nCONSTANTS\n  Liqs = %s\n  FeeTenths = {0, 1}\nINVARIANT Laws\nCHECK_DEADLOCK FALSE\n" % liqs)
    vlib.tlc_must_pass(r, "MCCLSwapIdeal")
    log("MC (curve laws): %d distinct / %d generated configurations, %.0fs" % (r.distinct, r.generated, r.wall))
    ctx.leg = "trace"
    nh, nops = (24, 100) if q else (400, 150)
    ctx.params = {"histories": nh, "ops": nops}
    trace = clc.record(ctx, "C03", nh, nops)
    kinds, samples, n = clc.summarise(trace)
    clc.need(kinds, ["swap:ok", "swap:fail", "swap:crossing-initialised-ticks"])
    if kinds.get("swap:ok", 0) < 100:
        raise Infra("only %d successful swaps recorded" % kinds.get("swap:ok", 0))
    gen, dist, nlines = vlib.validate_trace("C03", "TraceCLSwap.tla", "TraceCLSwap.cfg", trace, timeout=3000)
    log("validated %d recorded events (%d successful swaps) of %d histories against the exact curve"
        % (nlines, kinds.get("swap:ok", 0), nh))
    vlib.write_evidence("C03", ctx.tier, ctx.seed, "model_checking", {
        "states": r.distinct + dist, "transitions": r.generated + gen, "traces_validated_against_impl": nh,
        "mc_configurations": r.distinct, "recorded_events": nlines, "event_kinds": kinds,
        "swaps_checked_against_curve": kinds.get("swap:ok", 0), "samples": samples,
        "checker_cmd": "bin/check C03 --tier " + ctx.tier}, time.time() - ctx.t0,
        ["TLC; BigNum java override", "harness projection of the pool state and of the trader's balance deltas",
         "tick sqrt prices as computed by the implementation (C14)", "dust bound: 2 base units per bucket touched (+2)"])


def evidence_on_violation(ctx, v):
    vlib.write_evidence("C03", ctx.tier, ctx.seed, "model_checking",
                        {"evaluations": 1, "distinct_nontrivial": 2, "samples": [v.what]}, time.time() - ctx.t0, [], 1)
