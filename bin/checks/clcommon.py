"""Shared by the concentrated-liquidity checks (C01, C03, C07, C08): recording histories of a
real pool with harness/app/cl and summarising them."""
import json, os
import vlib
from vlib import Infra, log

BUILD = [("./app/cl/", "cl")]


def record(ctx, tag, histories, ops, drain_every=1000000, style="mixed", binary=None):
    # binary: a harness binary the caller has already built from ./app/cl/ (C07 builds one with an
    # extra overlay file for its behaviour replay and records with the same binary)
    binary = binary or vlib.build_test("./app/cl/", "cl")
    d = vlib.scratch(tag + "-rec")
    trace = os.path.join(d, "cl.ndjson")
    vlib.run_test(binary, "TestRecord", {"VERIF_OUT": trace, "VERIF_SEED": ctx.seed, "VERIF_HISTORIES": histories,
                                         "VERIF_OPS": ops, "VERIF_DRAIN_EVERY": drain_every, "VERIF_STYLE": style},
                  timeout=3000)
    return trace


def summarise(trace, nsamples=3):
    kinds, samples, n = {}, [], 0
    swaps_cross = 0
    prev = None
    for ln in open(trace):
        e = json.loads(ln)
        n += 1
        if e["e"] != "op":
            prev = e
            continue
        key = "%s:%s" % (e["op"], "ok" if e["ok"] else ("panic" if e["pan"] else "fail"))
        kinds[key] = kinds.get(key, 0) + 1
        if e["op"] == "swap" and e["ok"] and prev is not None and prev.get("st"):
            t0, t1 = prev["st"]["tick"], e["st"]["tick"]
            lo, hi = min(t0, t1), max(t0, t1)
            if any(lo < tk["t"] <= hi for tk in prev["st"]["ticks"]):
                swaps_cross += 1
        if len(samples) < nsamples and e["op"] in ("swap", "create") and e["ok"]:
            slim = {k: e[k] for k in ("op", "who", "args", "ok", "res")}
            slim["st"] = {k: e["st"][k] for k in ("tick", "sqrt", "liq")}
            slim["st"]["npos"] = len(e["st"]["pos"])
            slim["st"]["nticks"] = len(e["st"]["ticks"])
            samples.append(slim)
        prev = e
    kinds["swap:crossing-initialised-ticks"] = swaps_cross
    return kinds, samples, n


def need(kinds, names):
    for k in names:
        if kinds.get(k, 0) == 0:
            raise Infra("recorder produced no '%s' events: the driver does not exercise the property" % k)
