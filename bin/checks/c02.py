"""C02 - classic pools and the swap router neither create nor lose funds.
Spec: spec/Gamm.tla (ledger: bank balances + supplies, pool records, ghosts for direct sends).
Legs: exhaustive TLC on a bounded toy-priced model (MCGamm), spec->impl replay of one action
schedule per distinct model state on the real app (tree walk on nested branches; steps the model
says cannot move funds must fail; the recorded ledger is validated like any trace), impl->spec
validation of recorded random histories of real messages (TraceGamm, BigNum)."""
import json, os, time
import vlib
from vlib import Infra, Violation, log

TRUST = ("Trusted: TLC evaluator, Json/IOUtils community modules, BigNum java override (differentially tested by "
         "bin/check setup), harness projection (bank balances / supplies, poolmanager.GetTotalPoolLiquidity, "
         "gamm.GetTotalPoolShares; shared by both binding directions), go -overlay.")
MANIFEST = {
    "engine": "tlc+go-harness", "design_ref": "DESIGN.md section 4 (C02)",
    "technique": "TLA+ ledger spec Gamm.tla; TLC exhaustive MC on a toy-priced bounded model; TLC-generated action schedules "
                 "replayed on the real app; recorded message histories trace-validated by TLC with BigNum",
    "text": "Gamm.tla keeps three books - bank balances and supplies, and each pool's own record (reserves, total shares) - "
            "for actors, pool accounts (created or not), the taker-fee collector and the community-pool account over base "
            "denoms and pool share denoms, and fixes the ledger effect of every entry point (create balancer/stableswap, the "
            "three joins, the three exits, routed / multi-hop / split swaps exact-in and exact-out, bank sends to pool "
            "accounts, test funding) given the amounts the message answered; amounts out / shares are inputs, the taker fee "
            "is computed (x - floor(x(1-f)), ceil(a/(1-f)) - a). Invariants: pool account = reported reserves + direct sends "
            "in every denom, share supply = reported total shares, non-share supplies constant, every unit in exactly one "
            "tracked account, nothing negative; action properties: failed messages change nothing, only the parties of a "
            "message change, swaps conserve over trader + pools + collector, collectors only receive. TLC checks all of it "
            "on all paths of a 2-actor 2-pool toy model (depth 4 quick / 5 thorough); one schedule per distinct state of a "
            "second model is executed on the real app and validated; random histories of real messages (2-4 pools, balancer "
            "2-8 assets with weights 1..2^20, stableswap with scaling factors, pools holding other pools' shares, 3-4 accounts "
            "rich to broke, default / per-pair taker fees 0..1, fee-exempt traders, creation-fee-exempt creators, amounts 1 "
            "unit..1e36, pre-funded pool addresses) are validated line by line: the spec recomputes the whole ledger after "
            "every message from the message's answer and the logged ledger must be exactly that.",
    "note": TRUST + " Messages are delivered like DeliverTx (ValidateBasic, handler on a branch, written on success, panics "
            "recovered). Exit fees are rejected by the chain at pool creation, so exit-fee paths are unreachable through "
            "messages. Per-hop swap amounts are taken from the token_swapped events of the message result.",
}
BUILD = [("./app/gamm/", "gamm")]

SIG_DRAIN = "balancer-swap-pays-out-entire-reserve:record-not-updated"

MC_CFG = """SPECIFICATION MCSpec
CONSTANTS
  U = 4
  NZero = 0
  NAdd <- IAdd
  NSub <- ISub
  NMul <- IMul
  NLe <- ILe
  NFloorDiv <- IFloorDiv
  NCeilDiv <- ICeilDiv
  CConf <- %(conf)s
  Amts = {%(amts)s}
  ShareAmts = {%(shares)s}
  MaxDepth = %(depth)d
  MaxDirect = %(direct)d
VIEW %(view)s
%(inv)s
CHECK_DEADLOCK FALSE
"""
PROPS = ("INVARIANTS PoolBacked ShareSupply SupplyConst Accounted NonNeg DeadPoolsEmpty\n"
         "PROPERTIES FailedNoEffect OnlyPartiesChange SwapConserves CollectorsOnlyReceive")


def big(b):
    x = 0
    for limb in reversed(b["m"]):
        x = x * 10000 + limb
    return -x if b["s"] < 0 else x


def drain_in(prev_st, e):
    """Recognises the shape of the known finding (NOT a verdict): a successful swap one of whose legs pays out
    exactly what the pool's record held of that denom at that moment."""
    if e.get("op") != "swap" or not e.get("ok"):
        return None
    res = [[big(x) for x in p["res"]] for p in prev_st["pools"]]
    for k, g in enumerate(e["res"]["legs"]):
        p, di, do, ai, ao = g["p"] - 1, g["di"] - 1, g["do"] - 1, big(g["ai"]), big(g["ao"])
        if not (0 <= p < len(res)):
            return None
        res[p][di] += ai
        if res[p][do] == ao:
            return {"leg": k + 1, "pool_slot": p + 1, "denom_in": di + 1, "denom_out": do + 1, "amount_in": str(ai),
                    "amount_out": str(ao), "reserve_out_before": str(res[p][do])}
        res[p][do] -= ao
    return None


def scan_and_cut(trace, cut_path):
    """One pass over a recorded trace: counts of what the recorder exercised (non-vacuity, not a verdict) and
    histories cut before their first event of the known-finding shape.  Returns (counts, first_instance) where
    first_instance = (lines of that history up to and including the event, description)."""
    c = {k: 0 for k in ("histories", "events", "swap_in_ok", "swap_out_ok", "multihop_ok", "split_ok", "via_gamm_ok",
                        "fee_charged", "exempt_swaps_ok", "balancer_created", "stableswap_created", "max_assets",
                        "share_denom_asset_pools", "direct_sends", "prefunded_pool_accounts", "actor_to_actor_sends",
                        "failed_msgs", "panics_recovered", "creation_fee_paid", "drain_shape", "max_hops", "free_creations")}
    kinds = {}
    first = None
    conf, prev, hist_lines, cutting = None, None, [], False
    with open(trace) as f, open(cut_path, "w") as g:
        for ln in f:
            e = json.loads(ln)
            c["events"] += 1
            if e["e"] == "cfg":
                conf, prev, hist_lines, cutting = e, e["st"], [ln], False
                c["histories"] += 1
                g.write(ln)
                continue
            if cutting:
                continue
            hist_lines.append(ln)
            key = "%s:%s" % (e["op"], "ok" if e["ok"] else "fail")
            kinds[key] = kinds.get(key, 0) + 1
            na, np_, nd = conf["na"], conf["np"], conf["nd"]
            d = drain_in(prev, e)
            if d is not None:
                c["drain_shape"] += 1
                if first is None:
                    first = (list(hist_lines), dict(d, seed=conf.get("seed"), denoms=conf["denoms"], msg=e["msg"]))
                cutting = True
                continue
            g.write(ln)
            st = e["st"]
            if not e["ok"]:
                c["failed_msgs"] += 1
                c["panics_recovered"] += bool(e["pan"])
            elif e["op"] == "swap":
                a = e["args"]
                c["swap_in_ok" if a["exactIn"] else "swap_out_ok"] += 1
                nh = max(len(r["hops"]) for r in a["routes"])
                c["multihop_ok"] += nh > 1
                c["max_hops"] = max(c["max_hops"], nh)
                c["split_ok"] += len(a["routes"]) > 1
                c["via_gamm_ok"] += e["msg"].startswith("gamm.")
                c["exempt_swaps_ok"] += bool(a["ex"])
                c["fee_charged"] += any(big(x) > big(y) for x, y in zip(st["bal"][na + np_], prev["bal"][na + np_]))
            elif e["op"] == "create":
                a = e["args"]
                c[a["kind"] + "_created"] += 1
                c["max_assets"] = max(c["max_assets"], a["n"])
                c["share_denom_asset_pools"] += any(big(x) > 0 for x in a["v"][nd:])
                paid = any(big(x) > big(y) for x, y in zip(st["bal"][na + np_ + 1], prev["bal"][na + np_ + 1]))
                c["creation_fee_paid"] += paid
                c["free_creations"] += e["who"] in conf["free"]
            elif e["op"] == "send":
                to = e["args"]["to"]
                if na < to <= na + np_:
                    c["direct_sends"] += 1
                    c["prefunded_pool_accounts"] += not prev["pools"][to - na - 1]["on"]
                elif to <= na:
                    c["actor_to_actor_sends"] += 1
            prev = st
    return c, kinds, first


def check_known_instance(ctx, first, d):
    """The known-finding shape was seen: let TLC decide on the first instance (the history up to and including the
    event).  A rejection there is a property violation on a real execution -> ctx.finding."""
    lines, desc = first
    p = os.path.join(d, "drain-instance.ndjson")
    open(p, "w").write("".join(lines))
    try:
        vlib.validate_trace("C02", "TraceGamm.tla", "TraceGamm.cfg", p, parallel=1)
    except Violation as v:
        if v.detail.get("chunk_line") != len(lines) or "PoolBacked" not in v.what:
            raise
        ctx.finding(SIG_DRAIN,
                    "a balancer swap whose amount out equals the pool's whole recorded reserve of that denom succeeds, the "
                    "bank pays it out, but the pool record keeps the old reserve (pool account < reported reserves): %s"
                    % json.dumps(desc), dict(v.detail, description=desc))
        return True
    return False


MUTATE_NOTE = "offending line cut"


def run(ctx):
    q = ctx.quick
    cov = {"samples": []}
    # 1. design: all paths of the bounded toy-priced model, every invariant / action property
    ctx.leg = "mc"
    if q:
        mcs = [dict(conf="CfgA", amts="1, 2", shares="1, 2", depth=4, direct=2),
               dict(conf="CfgB", amts="2", shares="1", depth=3, direct=1)]
    else:
        mcs = [dict(conf="CfgA", amts="1, 2", shares="1, 2", depth=5, direct=2),
               dict(conf="CfgB", amts="1, 2", shares="1, 2", depth=4, direct=2)]
    states = trans = 0
    for m in mcs:
        r = vlib.tlc("MCGamm.tla", "mc.cfg", workers=vlib.NCPU, timeout=3000, heap="6g", tag="C02-mc",
                     cfg_text=MC_CFG % dict(m, inv=PROPS, view="View"))
        vlib.tlc_must_pass(r, "MCGamm " + m["conf"])
        states += r.distinct
        trans += r.generated
        log("MC %s depth %d: %d distinct / %d generated states, %.0fs" % (m["conf"], m["depth"], r.distinct, r.generated, r.wall))
    cov["mc_states"], cov["mc_transitions"] = states, trans
    # non-vacuity of the model: fees are charged, direct sends happen, both pools coexist (each must be REACHABLE)
    for wit in ("NeverFee", "NeverDirect", "NeverTwoPools"):
        w = vlib.tlc("MCGamm.tla", "wit.cfg", workers=4, timeout=900, heap="4g", tag="C02-wit",
                     cfg_text=MC_CFG % dict(conf="CfgA", amts="2", shares="1", depth=4, direct=1, inv="INVARIANTS " + wit, view="View"))
        if w.error or w.violated != wit:
            raise Infra("model non-vacuity witness %s is not reachable: %s" % (wit, w.error or w.violated))
    log("model witnesses: taker fees collected, direct sends, two coexisting pools are all reachable")

    binary = vlib.build_test("./app/gamm/", "gamm")

    # 2. spec -> impl: one schedule per distinct model state, executed as a tree walk on the real app
    ctx.leg = "replay"
    if q:
        gens = [dict(conf="CfgA", amts="2", shares="1", depth=4, direct=1)]
    else:
        gens = [dict(conf="CfgA", amts="1, 2", shares="1, 2", depth=4, direct=1),
                dict(conf="CfgB", amts="2", shares="1", depth=4, direct=1)]
    replayed = rsteps = rmust = 0
    rgen = rdist = revents = 0
    rkinds = {}
    for g in gens:
        r = vlib.tlc("MCGamm.tla", "gen.cfg", workers=4, timeout=3000, heap="4g", tag="C02-gen", keep=True,
                     cfg_text=MC_CFG % dict(g, inv="INVARIANTS Emit", view="ViewGen"))
        vlib.tlc_must_pass(r, "GenGamm " + g["conf"])
        d = os.path.dirname(r.out)
        gen = os.path.join(d, "gen.jsonl")
        n = vlib.extract_gen(r.out, gen)
        if n == 0:
            raise Infra("generator produced no behaviours")
        rtrace = os.path.join(d, "replay.ndjson")
        vlib.run_test(binary, "TestReplay", {"VERIF_IN": gen, "VERIF_OUT": rtrace, "VERIF_RESULT": gen + ".result"}, timeout=3000)
        res = json.load(open(gen + ".result"))
        mm = res.get("mismatches") or []
        replayed += res["behaviours"]
        rsteps += res["steps"]
        rmust += res["mustFail"]
        for k, v in res["kinds"].items():
            rkinds[k] = rkinds.get(k, 0) + v
        if len(cov["samples"]) < 1:
            with open(gen) as f:
                for i, ln in enumerate(f):
                    if i == 200 or (i < 200 and len(json.loads(ln)["steps"]) >= 3):
                        cov["samples"].append({"spec_behaviour": json.loads(ln)})
                        break
        log("replayed %d model schedules of %s (%d distinct steps, %d of them must-fail) on the real app: %d mismatches"
            % (res["behaviours"], g["conf"], res["steps"], res["mustFail"], len(mm)))
        if mm:
            m = mm[0]
            raise Violation("C02", "real code deviates from the specification on a generated behaviour: %s (%s)"
                            % (m["what"], m["behaviour"][:300]), {"mismatch": m}, "replay:" + m["what"])
        if res["mustFail"] == 0:
            raise Infra("generated schedules contain no must-fail step")
        g_, d_, nl = vlib.validate_trace("C02", "TraceGamm.tla", "TraceGamm.cfg", rtrace, timeout=3000)
        rgen, rdist, revents = rgen + g_, rdist + d_, revents + nl
        states += r.distinct
        trans += r.generated
    for need in ("create:ok", "join:ok", "joinIn:ok", "joinOut:ok", "exit:ok", "exitIn:ok", "exitOut:ok", "swap:ok", "send:ok",
                 "exit:fail", "joinOut:fail", "exitOut:fail"):
        if rkinds.get(need, 0) == 0:
            raise Infra("replayed schedules produced no '%s' on the real app" % need)
    log("the %d ledger states recorded while replaying were all accepted by TraceGamm" % revents)

    # 3. impl -> spec: recorded random histories validated line by line
    ctx.leg = "trace"
    nh, nops = (40, 90) if q else (800, 150)
    ctx.params = {"histories": nh, "ops": nops}
    d = vlib.scratch("C02-rec")
    trace = os.path.join(d, "gamm.ndjson")
    vlib.run_test(binary, "TestRecord", {"VERIF_OUT": trace, "VERIF_SEED": ctx.seed, "VERIF_HISTORIES": nh, "VERIF_OPS": nops},
                  timeout=3000)
    cut = os.path.join(d, "gamm.cut.ndjson")
    counts, kinds, first = scan_and_cut(trace, cut)
    for need in ("create:ok", "create:fail", "join:ok", "join:fail", "joinIn:ok", "joinOut:ok", "exit:ok", "exit:fail", "exitIn:ok",
                 "exitOut:ok", "swap:ok", "swap:fail", "send:ok", "fund:ok", "config:ok"):
        if kinds.get(need, 0) == 0:
            raise Infra("recorder produced no '%s' events: the driver does not exercise the property" % need)
    for need in ("swap_in_ok", "swap_out_ok", "multihop_ok", "split_ok", "via_gamm_ok", "fee_charged", "exempt_swaps_ok",
                 "balancer_created", "stableswap_created", "direct_sends", "prefunded_pool_accounts", "creation_fee_paid"):
        if counts[need] == 0:
            raise Infra("recorder produced no %s: the driver does not exercise the property" % need)
    with open(cut) as f:
        for i, ln in enumerate(f):
            e = json.loads(ln)
            if e["e"] == "op" and e["op"] == "swap" and e["ok"] and len(cov["samples"]) < 3:
                cov["samples"].append({"trace_event": {k: e[k] for k in ("op", "msg", "who", "ok", "args", "res")}})
    known = False
    if first is not None:
        known = check_known_instance(ctx, first, d)
        log("%d histories contain a swap paying out a pool's entire recorded reserve; TLC %s the first instance; those "
            "histories are validated up to that message" % (counts["drain_shape"], "rejected" if known else "ACCEPTED"))
        if not known:
            cut = trace      # the shape is harmless on this tree: validate everything
    gen_, dist_, nlines = vlib.validate_trace("C02", "TraceGamm.tla", "TraceGamm.cfg", cut, timeout=3000)
    log("validated %d recorded ledger states of %d histories against TraceGamm" % (nlines, nh))
    cov.update({"states": states + dist_ + rdist, "transitions": trans + gen_ + rgen,
                "traces_validated_against_impl": nh + replayed,
                "recorded_histories": nh, "recorded_events": nlines, "event_kinds": kinds, "recorder_counts": counts,
                "spec_behaviours_replayed": replayed, "replay_steps": rsteps, "replay_must_fail_steps": rmust,
                "replay_events_validated": revents, "replay_event_kinds": rkinds,
                "known_finding_hits": dict(ctx.known_hit),
                "checker_cmd": "bin/check C02 --tier " + ctx.tier})
    vlib.write_evidence("C02", ctx.tier, ctx.seed, "model_checking", cov, time.time() - ctx.t0,
                        ["TLC evaluator; Json/IOUtils community modules; BigNum java override",
                         "bank balances / supplies and the pools' own queries are the books of record (harness projection shared by both directions)",
                         "per-hop amounts of routed swaps are the token_swapped events of the message result; the taker-fee rate of a hop is what GetTradingPairTakerFee reports before the message",
                         "messages are delivered on a branch under recover and written only on success, like DeliverTx; begin/end blockers (taker-fee distribution at epoch end) are outside the property and not run",
                         "a history is validated up to (not beyond) a message of the known-finding shape, after TLC rejected the first such instance"])


def evidence_on_violation(ctx, v):
    vlib.write_evidence("C02", ctx.tier, ctx.seed, "model_checking",
                        {"evaluations": 1, "distinct_nontrivial": 2, "samples": [v.what],
                         "explanation": "violation found in leg " + str(ctx.leg)}, time.time() - ctx.t0, [], 1)
