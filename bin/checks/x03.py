"""X03 (extra) - x/pool-incentives: the distribution-record registry, the gauges and pool <-> gauge
links created for new pools, and the allocation of the minted pool incentives to the registered gauges.
Spec: spec/PoolIncentives.tla (properties R1-R5, G1-G4, Q1, A1-A7 in its header).
Legs: exhaustive TLC on bounded models (MCPoolIncentives), spec->impl replay of the shortest behaviour to
every distinct state of a second bounded model on the real keepers, impl->spec validation of recorded random
histories on a full app (TracePoolIncentives, BigNum weights and amounts)."""
import concurrent.futures, json, os, re, time
from fractions import Fraction
import vlib
from vlib import Infra, Violation, log

TRUST = ("Trusted: TLC evaluator, Json/IOUtils community modules, BigNum java override (differentially "
         "tested by bin/check setup), harness projection functions (shared by both binding directions), go -overlay.")
MANIFEST = {
    "engine": "tlc+go-harness", "design_ref": "docs/extra_x03.md; DESIGN.md section 3 (common method)",
    "technique": "TLA+ spec PoolIncentives.tla; TLC exhaustive MC on bounded models; TLC-generated behaviours replayed on the "
                 "real keepers; recorded histories trace-validated by TLC with BigNum",
    "text": "PoolIncentives.tla models pool creation (classic: one perpetual by-duration gauge per lockable duration; "
            "concentrated: one perpetual no-lock gauge) with the pool<->gauge link tables, user-created gauges, the replace / "
            "update governance proposals on the distribution-record registry, funding of the module account and AllocateAsset "
            "(bare and inside the real mint epoch hook). Invariants: registry well formed and total = sum of weights, links "
            "consistent both ways, conservation (inflow = paid + held; incentives account = sum of gauge coins), allocation "
            "never fails, queries answer; action properties: links immutable, remainder < one unit per record, only registered "
            "gauges receive and only the minted denomination moves, only proposals change the registry. Each payment is checked "
            "against the exact rational share A*w/T with the stated tolerance (one unit + 18-decimal ratio precision).",
    "note": TRUST + " Proposals run as governance runs them (ValidateBasic + the module's proposal handler) on a branch "
            "written only on success; the mint hook runs under recover like osmoutils.ApplyFuncIfNoError. Minted denom = base coin unit.",
}
BUILD = [("./app/poolincentives/", "poolincentives")]

MC_CFG = """SPECIFICATION MCSpec
CONSTANTS
  NAdd <- IAdd
  NSub <- ISub
  NMul <- IMul
  NLe <- ILe
  NZero = 0
  NOne = 1
  NPrec2 = 2000
  MaxPools = %(pools)d
  MaxExt = %(ext)d
  MaxGov = %(gov)d
  MaxAlloc = %(alloc)d
  MaxFund = %(fund)d
  Weights = {%(weights)s}
  Funds = {%(funds)s}
  Slack = {%(slack)s}
  MaxLen = %(maxlen)d
VIEW View
%(inv)s
CHECK_DEADLOCK FALSE
"""
PROPS = ("INVARIANTS TypeOK RegistryWellFormed TotalIsSum LinksConsistent InternalGaugesPerpetual Conservation NeverFails\n"
         "PROPERTIES LinksImmutable RemainderSmall OnlyRegisteredReceive RegistryStable")
MC_ACTIONS = ("MCClassic", "MCConcentrated", "MCExt", "MCReplace", "MCUpdate", "MCFund", "MCAllocate")

# deviations of the current tree from A7 / Q1, keyed by what exactly went wrong
SIG_A7 = "alloc-fails:insufficient-funds:sum-of-rounded-ratios-exceeds-one"
SIG_INC = "query:IncentivizedPools-fails:registered-gauge-without-pool-link"
SIG_GID = "query:GaugeIds-panics:division-by-zero:zero-total-weight"
SIG_PCT = "query:GaugeIds:percentage-of-previous-gauge-carried-over"


def big(b):
    x = 0
    for limb in reversed(b["m"]):
        x = x * 10000 + limb
    return -x if b["s"] < 0 else x


def mc_cfg(inv=PROPS, **kw):
    d = dict(pools=2, ext=1, gov=2, alloc=2, fund=1, weights="0, 1, 2", funds="3", slack="0", maxlen=2)
    d.update(kw)
    return MC_CFG % dict(d, inv=inv)


RE_COV = re.compile(r"^<(MC\w+) line .*>: (\d+):(\d+)")


def nth_line(path, n):
    with open(path) as f:
        for i, ln in enumerate(f):
            if i == n:
                return ln
    return "null"


def action_coverage(out):
    cov = {}
    for line in open(out, errors="replace"):
        m = RE_COV.match(line)
        if m:
            cov[m.group(1)] = cov.get(m.group(1), 0) + int(m.group(3))
    return cov


def scan(trace):
    """What the recorder exercised (non-vacuity) and every event that deviates from A7 / Q1, classified."""
    c = {k: 0 for k in ("histories", "events", "pool_cfmm", "pool_cl", "pool_refused", "ext_perp", "ext_nonperp", "ext_nolock",
                        "replace_ok", "replace_rejected", "update_ok", "update_rejected", "update_deletes", "fund_minted",
                        "fund_other", "alloc_ok", "alloc_failed", "alloc_nothing_held", "alloc_zero_weight", "alloc_to_gauges",
                        "alloc_with_community_record", "alloc_remainder_left", "alloc_not_exact_floor", "mint_ok", "mint_failed",
                        "max_records", "max_gauges", "amounts_18_decimals", "gauge_other_coins", "incentivized_ok",
                        "incentivized_failed", "gaugeids_failed", "percentage_wrong")}
    shapes = {}
    dev = {}   # signature -> first example

    def note(sig, ex):
        dev.setdefault(sig, ex)

    prev, hist = None, 0
    for n, ln in enumerate(open(trace), 1):
        e = json.loads(ln)
        c["events"] += 1
        k = e["e"]
        st = e["st"]
        if k == "cfg":
            c["histories"] += 1
            hist = e["id"]
            prev = st
            continue
        ok = e.get("ok", True)
        where = {"line": n, "history": hist}
        if k == "pool":
            c["pool_refused" if not ok else "pool_" + e["kind"]] += 1
        elif k == "ext" and ok:
            c["ext_nolock" if e["kind"] == "nolock" else ("ext_perp" if e["perp"] else "ext_nonperp")] += 1
        elif k in ("replace", "update"):
            c[k + ("_ok" if ok else "_rejected")] += 1
            if e.get("shape"):      # the malformed proposals submitted (whatever the code answered)
                shapes[e["shape"]] = shapes.get(e["shape"], 0) + 1
            if k == "update" and ok and any(big(r["w"]) == 0 for r in e["recs"]):
                c["update_deletes"] += 1
        elif k == "fund":
            c["fund_minted" if big(e["x"]) > 0 else "fund_other"] += 1
        elif k in ("alloc", "mint"):
            c[k + ("_ok" if ok else "_failed")] += 1
            if not ok:
                recs = [(r["g"], str(big(r["w"]))) for r in prev["recs"]]
                ex = dict(where, event=k, err=e.get("err", "")[:300], registry=recs[:12], total_weight=str(big(prev["tw"])),
                          module_account=str(big(prev["led"]["mod"])), provision=e.get("prov"))
                note(SIG_A7 if "insufficient funds" in e.get("err", "") else "alloc-fails:" + e.get("err", "")[:60], ex)
            else:
                A = big(prev["led"]["mod"]) + (big(e["x"]) if k == "mint" else 0)
                T = big(prev["tw"])
                if A >= 10 ** 18:
                    c["amounts_18_decimals"] += 1
                if A == 0:
                    c["alloc_nothing_held"] += 1
                elif T == 0:
                    c["alloc_zero_weight"] += 1
                else:
                    gp = {g["id"]: big(g["c"]) for g in prev["gauges"]}
                    gn = {g["id"]: big(g["c"]) for g in st["gauges"]}
                    for r in prev["recs"]:
                        paid = big(st["led"]["comm"]) - big(prev["led"]["comm"]) if r["g"] == 0 else gn.get(r["g"], 0) - gp.get(r["g"], 0)
                        if paid != (A * big(r["w"])) // T:
                            c["alloc_not_exact_floor"] += 1
                            break
                    c["alloc_to_gauges"] += any(r["g"] != 0 and big(r["w"]) > 0 for r in prev["recs"])
                    c["alloc_with_community_record"] += any(r["g"] == 0 and big(r["w"]) > 0 for r in prev["recs"])
                    c["alloc_remainder_left"] += big(st["led"]["mod"]) > 0
        c["max_records"] = max(c["max_records"], len(st["recs"]))
        c["max_gauges"] = max(c["max_gauges"], len(st["gauges"]))
        c["gauge_other_coins"] += any(big(g["o"]) > 0 for g in st["gauges"]) and k in ("alloc", "mint")
        q = e["q"]
        if q["inc"]["ok"]:
            c["incentivized_ok"] += 1
        else:
            c["incentivized_failed"] += 1
            internal = {x["g"] for x in st["p2g"]}
            users = [r["g"] for r in st["recs"] if r["g"] != 0 and r["g"] not in internal]
            err = q["inc"].get("err", "")
            expected = users and ("no pool associated with gauge id" in err or "which is not one of the lockable durations" in err)
            note(SIG_INC if expected else "query:IncentivizedPools-fails:" + err[:60],
                 dict(where, err=err[:200], registry=[(r["g"], str(big(r["w"]))) for r in st["recs"]][:12], user_created_gauges_registered=users[:8]))
        T = big(st["tw"])
        wt = {r["g"]: big(r["w"]) for r in st["recs"]}
        for a in q["gaugeIds"]:
            if not a["ok"]:
                c["gaugeids_failed"] += 1
                note(SIG_GID if "division by zero" in a.get("err", "") and T == 0 else "query:GaugeIds-fails:" + a.get("err", "")[:60],
                     dict(where, pool=a["pool"], err=a.get("err", "")[:200], registry=[(r["g"], str(big(r["w"]))) for r in st["recs"]][:12],
                          total_weight=str(T)))
                continue
            last = None
            for ent, p in zip(a["ids"], a["pcts"]):
                pct, w = big(p), wt.get(ent["g"], 0)
                right = abs(2 * pct * T - 100 * 2 * 10 ** 18 * w) <= 200 * T
                if not right:
                    c["percentage_wrong"] += 1
                    carried = ent["g"] not in wt and last is not None and pct == last
                    note(SIG_PCT if carried else "query:GaugeIds:wrong-percentage",
                         dict(where, pool=a["pool"], gauge=ent["g"], reported=str(Fraction(pct, 10 ** 18)), own_weight=str(w), total_weight=str(T),
                              answer=[(x["g"], str(Fraction(big(y), 10 ** 18))) for x, y in zip(a["ids"], a["pcts"])]))
                last = pct
        prev = st
    return c, shapes, dev


def validate(ctx, trace, cfg, parallel):
    """Trace validation in chunks (as vlib.validate_trace) that also returns what the monitor configuration
    reported: for each of A7 / Q1-inc / Q1-gid / Q1-pct whether some recorded state violates it."""
    chunks = vlib.split_histories(trace, parallel)
    gen = dist = nlines = 0
    devs = [0, 0, 0, 0]

    def one(ch):
        return ch, vlib.tlc("TracePoolIncentives.tla", cfg, workers=1, timeout=1500, env={"TRACE_FILE": ch[0]}, heap="3g", tag="X03-trace")

    with concurrent.futures.ThreadPoolExecutor(max_workers=parallel) as ex:
        results = list(ex.map(one, chunks))
    for (p, first, n), r in results:
        if r.error:
            raise Infra("trace validation: %s" % r.error)
        gen += r.generated
        dist += r.distinct
        nlines += n
        if not r.ok:
            if r.rejected_line is not None and not r.violated:
                ln, what = r.rejected_line, "recorded step is not a step of the specification"
            else:
                ln, what = (r.last_l if r.last_l else r.depth), "property %s is false in a recorded state" % r.violated
            lines = open(p).read().split("\n")
            hstart = ln - 1
            while hstart > 0 and '"e":"cfg"' not in lines[hstart]:
                hstart -= 1
            detail = {"spec": "TracePoolIncentives.tla", "cfg": cfg, "chunk_line": ln, "trace_line": first + ln - 1, "reason": what,
                      "violated": r.violated, "failed_checks": r.failed_checks[-3:],
                      "offending_event": lines[ln - 1] if 0 < ln <= len(lines) else None,
                      "history_prefix": lines[hstart:ln][-120:], "tlc_output": r.out}
            if r.failed_checks and not r.violated:
                what += ": " + r.failed_checks[-1]
            sig = "trace:" + (r.violated or (r.failed_checks[-1] if r.failed_checks else "rejected"))
            raise Violation("X03", what + (" (%s)" % r.violated if r.violated else ""), detail, sig)
        m = [re.search(r'"DEVIATIONS", (\d+), (\d+), (\d+), (\d+)', x) for x in r.prints]
        m = [x for x in m if x]
        if not m:
            raise Infra("trace validation: the monitor did not report (see %s)" % r.out)
        for i in range(4):
            v = int(m[-1].group(i + 1))
            if v and not devs[i]:
                devs[i] = first + v - 1
    for p, _, _ in chunks:
        try:
            os.remove(p)
        except OSError:
            pass
    return gen, dist, nlines, devs


def run(ctx):
    q = ctx.quick
    cov = {"samples": []}
    # development aid: VERIF_X03_LEGS=trace runs only the named legs (no evidence is written then)
    legs = [x for x in os.environ.get("VERIF_X03_LEGS", "mc,replay,trace").split(",") if x]
    workers = min(vlib.NCPU, 4 if q else 8)
    # the harness is compiled while TLC model-checks the design
    pool = concurrent.futures.ThreadPoolExecutor(max_workers=1)
    building = pool.submit(vlib.build_test, "./app/poolincentives/", "poolincentives")

    # 1. design: exhaustive model checking of the bounded spec
    ctx.leg = "mc"
    if q:
        mcs = [("one pool, two proposals, one allocation, payments up to one unit below the floor", dict(pools=1, alloc=1, slack="0, 1")),
               ("two pools, one proposal, two allocations, payments up to one unit below the floor", dict(gov=1, slack="0, 1")),
               ("one pool, one proposal of up to three records", dict(pools=1, ext=0, gov=1, slack="0, 1", maxlen=3))]
    else:
        mcs = [("two pools, two proposals", dict()),
               ("one pool, two proposals, payments up to one unit below the floor, two amounts", dict(pools=1, slack="0, 1", funds="2, 3")),
               ("two pools, one proposal of up to three records, two amounts", dict(gov=1, slack="0, 1", maxlen=3, funds="2, 3")),
               ("three pools, one proposal", dict(pools=3, gov=1, alloc=1))]
    states = trans = 0
    mc_detail, taken = [], {}
    try:
        for name, kw in (mcs if "mc" in legs else []):
            r = vlib.tlc("MCPoolIncentives.tla", "mc.cfg", workers=workers, timeout=3000, heap="16g", tag="X03-mc", keep=True,
                         cfg_text=mc_cfg(**kw), extra=["-coverage", "1"])
            vlib.tlc_must_pass(r, "MCPoolIncentives (%s)" % name)
            ac = action_coverage(r.out)
            for a in MC_ACTIONS:
                taken[a] = taken.get(a, 0) + ac.get(a, 0)
            states += r.distinct
            trans += r.generated
            mc_detail.append({"model": name, "distinct": r.distinct, "generated": r.generated, "depth": r.depth, "wall_s": round(r.wall), "actions": ac})
            log("MC %s: %d distinct / %d generated, depth %d, %.0fs" % (name, r.distinct, r.generated, r.depth, r.wall))
    finally:
        binary = building.result()
    for a in MC_ACTIONS:
        if taken.get(a, 0) == 0 and "mc" in legs:
            raise Infra("MCPoolIncentives: action %s was never taken in any bounded model" % a)
    cov["mc_states"], cov["mc_transitions"], cov["mc_models"], cov["mc_action_coverage"] = states, trans, mc_detail, taken

    # 2. spec -> impl: the shortest behaviour to every distinct state whose allocations are exact at every
    #    precision, executed on the real keepers and compared after every action
    ctx.leg = "replay"
    if q:
        gens = [("one pool, one user gauge, two proposals", dict(pools=1, alloc=1, weights="0, 1, 4")),
                ("two pools, one proposal, two allocations", dict(gov=1, ext=0, weights="0, 1, 4"))]
    else:
        gens = [("two pools, one user gauge, one proposal, two allocations", dict(gov=1, weights="0, 1, 4")),
                ("one pool, one user gauge, two proposals, two allocations", dict(pools=1, weights="0, 1, 4")),
                ("one pool, two proposals of up to three records", dict(pools=1, ext=0, alloc=1, weights="0, 1, 4", maxlen=3))]
    replayed = rsteps = 0
    kinds = {}
    counts = {"proposals_rejected": 0, "proposals_accepted": 0}
    rshapes = {}
    for name, kw in (gens if "replay" in legs else []):
        r = vlib.tlc("MCPoolIncentives.tla", "gen.cfg", workers=1, timeout=3000, heap="12g", tag="X03-gen", keep=True,
                     cfg_text=mc_cfg(inv="INVARIANTS Emit", **kw))
        vlib.tlc_must_pass(r, "GenPoolIncentives (%s)" % name)
        gen = os.path.join(os.path.dirname(r.out), "gen.jsonl")
        n = vlib.extract_gen(r.out, gen)
        if n == 0:
            raise Infra("generator produced no behaviours")
        nsh = 4 if q else 8

        def shard(i):
            vlib.run_test(binary, "TestReplay", {"VERIF_IN": gen, "VERIF_OUT": gen + ".result%d" % i, "VERIF_SHARD": "%d/%d" % (i, nsh)}, timeout=3000)
            return json.load(open(gen + ".result%d" % i))
        with concurrent.futures.ThreadPoolExecutor(max_workers=nsh) as ex:
            parts = list(ex.map(shard, range(nsh)))
        mm = [m for p in parts for m in (p.get("mismatches") or [])]
        nb = sum(p["behaviours"] for p in parts)
        replayed += nb
        rsteps += sum(p["steps"] for p in parts)
        for p in parts:
            for k, v in p["kinds"].items():
                kinds[k] = kinds.get(k, 0) + v
            for k in counts:
                counts[k] += p.get(k, 0)
            for k, v in (p.get("rejected_shapes") or {}).items():
                rshapes[k] = rshapes.get(k, 0) + v
        if not cov["samples"]:
            with open(gen) as f:
                for i, ln in enumerate(f):
                    if i == 200:
                        cov["samples"].append({"spec_behaviour": json.loads(ln)})
                        break
        log("replayed %d spec behaviours (%s; %d states) on the real keepers: %d mismatches" % (nb, name, r.distinct, len(mm)))
        if mm:
            m = mm[0]
            beh = nth_line(gen, m["behaviour"])
            raise Violation("X03", "real keeper deviates from the specification on a generated behaviour at step %d: %s (want %s, got %s)"
                            % (m["step"], m["what"], json.dumps(m["want"])[:300], json.dumps(m["got"])[:300]),
                            {"mismatch": m, "behaviour": json.loads(beh)}, "replay:" + m["what"])
        states += r.distinct
        trans += r.generated
    for need in ("pool", "ext", "replace", "update", "fund", "alloc", "mint") if "replay" in legs else ():
        if kinds.get(need, 0) == 0:
            raise Infra("generated behaviours contain no %s step" % need)
    for need in counts if "replay" in legs else ():
        if counts[need] == 0:
            raise Infra("generated behaviours contain no %s" % need)
    for need in ("empty", "negative", "descending", "duplicate", "unknown-gauge", "non-perpetual") if "replay" in legs else ():
        if rshapes.get(need, 0) == 0:
            raise Infra("generated behaviours contain no %s proposal" % need)

    # 3. impl -> spec: recorded random histories validated line by line
    ctx.leg = "trace"
    if "trace" not in legs:
        return
    nh, ns = (48, 60) if q else (640, 90)
    ctx.params = {"histories": nh, "steps": ns}
    d = vlib.scratch("X03-rec")
    trace = os.path.join(d, "poolincentives.ndjson")
    vlib.run_test(binary, "TestRecord", {"VERIF_OUT": trace, "VERIF_SEED": ctx.seed, "VERIF_HISTORIES": nh, "VERIF_STEPS": ns}, timeout=2400)
    with open(trace) as f:
        for i, ln in enumerate(f):
            if i in (1, 2, 9):
                e = json.loads(ln)
                e.pop("q", None)
                cov["samples"].append({"trace_event": e})
    c, shapes, dev = scan(trace)
    for need in ("pool_cfmm", "pool_cl", "pool_refused", "ext_perp", "ext_nonperp", "ext_nolock", "replace_ok", "replace_rejected", "update_ok",
                 "update_rejected", "update_deletes", "fund_minted", "fund_other", "alloc_ok", "alloc_nothing_held", "alloc_zero_weight",
                 "alloc_to_gauges", "alloc_with_community_record", "alloc_remainder_left", "mint_ok", "amounts_18_decimals",
                 "gauge_other_coins", "incentivized_ok"):
        if c[need] == 0:
            raise Infra("recorder produced no %s: driver is not exercising the property" % need)
    for need in ("descending", "duplicate", "unknown-gauge", "non-perpetual", "negative", "empty"):
        if shapes.get(need, 0) == 0:
            raise Infra("recorder submitted no %s proposal" % need)
    gen_, dist_, nlines, devs = validate(ctx, trace, "TracePoolIncentivesMon.cfg", 4 if q else 12)
    log("validated %d recorded events of %d histories against TracePoolIncentives: %d proposals accepted / %d rejected, "
        "%d pools, %d allocations (%d through the mint hook), %d not the exact floor"
        % (nlines, nh, c["replace_ok"] + c["update_ok"], c["replace_rejected"] + c["update_rejected"], c["pool_cfmm"] + c["pool_cl"],
           c["alloc_ok"] + c["mint_ok"], c["mint_ok"], c["alloc_not_exact_floor"]))
    # A7 / Q1: TLC says whether a recorded state violates them; the classification of every such event is the signature
    names = ["NeverFails (A7)", "IncentivizedPoolsAnswers (Q1)", "GaugeIdsAnswers (Q1)", "PercentagesRight (Q1)"]
    groups = [("alloc-fails",), ("query:IncentivizedPools",), ("query:GaugeIds-panics", "query:GaugeIds-fails"), ("query:GaugeIds:",)]
    texts = {
        SIG_A7: "AllocateAsset fails with 'insufficient funds' (the mint hook panics and the whole mint epoch is reverted): each share is "
                "amount * round18(weight/total) and the rounded ratios can sum to more than 1, so for amounts of about 10^18 and more "
                "the shares add up to more than the module account holds",
        SIG_INC: "the IncentivizedPools query fails for a registry governance accepted: a registered perpetual gauge that was created by "
                 "a user has no pool link and the query returns an error instead of the incentivized pools",
        SIG_GID: "the GaugeIds query panics (division by zero) when the registry holds a record for one of the pool's gauges while the "
                 "total weight is zero (a replace proposal with zero weights)",
        SIG_PCT: "the GaugeIds query reports for a gauge without a record the incentive percentage of the previous gauge of the pool "
                 "(the variable is not reset between durations)",
    }
    for i, line in enumerate(devs):
        mine = {s: ex for s, ex in dev.items() if s.startswith(groups[i])}
        if line and not mine:
            raise Infra("TLC reports %s false at trace line %d but the scan found no such event" % (names[i], line))
        if mine and not line:
            raise Infra("the scan found %s but TLC did not report %s" % (list(mine), names[i]))
        for s, ex in sorted(mine.items()):
            ctx.finding(s, "%s is false in a recorded state: %s (%s)" % (names[i], texts.get(s, s), json.dumps(ex)[:700]),
                        {"leg": "trace", "first_trace_line": line, "example": ex, "trace": trace})
    cov.update({"states": states + dist_, "transitions": trans + gen_,
                "traces_validated_against_impl": nh + replayed,
                "recorded_histories": nh, "recorded_events": nlines, "recorder_counts": c, "rejected_proposal_shapes": shapes,
                "spec_behaviours_replayed": replayed, "steps_replayed": rsteps, "replayed_step_kinds": kinds, "replayed_proposals": counts, "replayed_rejected_shapes": rshapes,
                "known_finding_hits": dict(ctx.known_hit), "deviation_examples": dev,
                "checker_cmd": "bin/check X03 --tier " + ctx.tier})
    if len(legs) < 3:
        return
    vlib.write_evidence("X03", ctx.tier, ctx.seed, "model_checking", cov, time.time() - ctx.t0,
                        ["TLC evaluator; Json/IOUtils community modules; BigNum java override",
                         "harness projection of the registry (DistrInfo query), pools, gauges (x/incentives), the raw link tables of the "
                         "module's store, module / community pool / incentives balances (shared by both binding directions)",
                         "proposals run as ValidateBasic + the module's proposal handler on a branch written only on success (as governance does)",
                         "the mint epoch hook runs on a cache context under recover and is written only on success, as osmoutils.ApplyFuncIfNoError does; "
                         "the mint parameters send the whole provision to pool incentives; x = growth of the bank supply",
                         "minted denom = base coin unit (gauges accept it without a route); pool ids, gauge ids and the pool creation fee are inputs from the log",
                         "group gauges, cosmwasm pools, genesis import/export and IsPoolIncentivized are not driven"])


def evidence_on_violation(ctx, v):
    vlib.write_evidence("X03", ctx.tier, ctx.seed, "model_checking",
                        {"evaluations": 1, "distinct_nontrivial": 2, "samples": [v.what],
                         "explanation": "violation found in leg " + str(ctx.leg)}, time.time() - ctx.t0, [], 1)
