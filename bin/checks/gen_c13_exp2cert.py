#!/usr/bin/env python3
"""Development-time generator of the numeric constants of /verif/spec/Exp2Cert.tla (property C13).

It writes the table of enclosures [TLo[i], THi[i]] of 2^(2^-i) * 10^D, i = 1..K, and the enclosures of
log2(e) and log2(1.0001), between the markers `\\* BEGIN GENERATED` / `\\* END GENERATED` of the module.

Nothing here is trusted: every number it emits is re-established inside TLC by the ASSUMEs of
Exp2Cert.tla (each table pair is squared with directed rounding against the previous pair, starting
from [2, 2]; the two logarithm enclosures are verified through the certified table against the rational
1.0001 and against a TLC-computed series enclosure of e).  A wrong digit makes TLC refuse to start.

usage: gen_c13_exp2cert.py            (rewrites spec/Exp2Cert.tla in place)"""
import os, re
from math import isqrt
from decimal import Decimal, getcontext

K = 160          # table length = number of fractional bits resolved
D = 72           # decimal digits of the table entries
CW = 60          # decimal digits of the logarithm enclosures
CDELTA = 10 ** 14  # half-width of the logarithm enclosures, in units of 10^-CW (1e-46)
ROOT = os.path.dirname(os.path.dirname(os.path.dirname(os.path.abspath(__file__))))


def limbs(x):
    assert x > 0
    out = []
    while x:
        x, r = divmod(x, 10000)
        out.append(str(r))
    return "[s |-> 1, m |-> <<%s>>]" % ", ".join(out)


def table():
    S = 10 ** D
    lo = hi = 2 * S
    los, his = [], []
    for _ in range(K):
        lo = isqrt(lo * S)                 # floor: lo^2 <= lo_prev * S
        h = isqrt(hi * S)
        hi = h if h * h == hi * S else h + 1   # ceil: hi^2 >= hi_prev * S
        los.append(lo)
        his.append(hi)
    return los, his


def consts():
    getcontext().prec = 120
    ln2 = Decimal(2).ln()
    out = {}
    for name, v in (("C2E", Decimal(1) / ln2), ("C2T", Decimal("1.0001").ln() / ln2)):
        c = int((v * 10 ** CW).to_integral_value())
        out[name + "Lo"], out[name + "Hi"] = c - CDELTA, c + CDELTA
    return out


def main():
    los, his = table()
    body = ["K == %d" % K, "D == %d" % D, "CW == %d" % CW, ""]
    body.append("TLo == <<")
    body.append(",\n".join("  " + limbs(x) for x in los))
    body.append(">>")
    body.append("THi == <<")
    body.append(",\n".join("  " + limbs(x) for x in his))
    body.append(">>")
    for k, v in consts().items():
        body.append("%s == %s" % (k, limbs(v)))
    path = os.path.join(ROOT, "spec", "Exp2Cert.tla")
    src = open(path).read()
    new = re.sub(r"(\\\* BEGIN GENERATED[^\n]*\n).*?(\\\* END GENERATED)",
                 lambda m: m.group(1) + "\n".join(body) + "\n" + m.group(2), src, flags=re.S)
    open(path, "w").write(new)
    print("wrote %d table pairs (%d digits) and 2 logarithm enclosures to %s" % (K, D, path))


if __name__ == "__main__":
    main()
