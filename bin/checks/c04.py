"""C04 - balancer and stableswap pool mathematics never gives value away.
Spec: spec/Cfmm.tla (exact BigNum rationals; fractional powers compared through integer powers).
Legs: (1) exhaustive TLC search of an integer constant-product pool with the code's rounding
directions for a profitable cycle (MCCfmm: none; each single flipped direction must yield one);
(2) impl->spec: recorded histories of real balancer.Pool / stableswap.Pool objects driven through
their public methods (harness/app/cfmm) validated line by line by TLC against Cfmm.tla
(TraceCfmm): one-sided bounds against the exact formulas with the calibrated precision function,
weighted product per share, exact stableswap invariant, proportional join/exit bounds, and the
sequence properties in every recorded state; (3) a corrupted copy of a recorded swap must be
rejected (the validator is not vacuous)."""
import concurrent.futures, json, os, re, time
import vlib
from vlib import Infra, Violation, log

PROP = "C04"
MANIFEST = {
    "engine": "tlc+go-harness", "design_ref": "DESIGN.md section 4 (C04)",
    "technique": "TLA+ spec Cfmm.tla (exact ideal of every pool-model entry point in BigNum rationals, y = r^(p/q) decided "
                 "through y^q = r^p); TLC exhaustive profitable-cycle search on an integer constant-product model; recorded "
                 "histories of the real pool objects trace-validated by TLC",
    "text": "Cfmm.tla has one relational action per public entry point of the balancer and stableswap pool models (swap exact "
            "in / exact out, single-asset join, join for exact shares, single-asset exit for exact tokens, all-asset joins, "
            "exit). Balancer answers are compared with the exact constant-weighted-product formulas: the pool never gives "
            "away more than Tau1 = 1e-8 * base^floor(e) + (ceil(e)+2) ulp (one-sided, the heart), agrees within the "
            "documented small-base bound of osmomath.Pow (Tau2), and prod B_k^w_k / S^W does not fall beyond that allowance; "
            "stableswap swaps must not lower prod x_k * sum x_k^2 on exactly scaled reserves at all; proportional joins mint "
            "<= S min(joined_k/B_k), exits pay <= B_k s (1-x)/S exactly. Sequence properties in every recorded state: "
            "balancer value per share at the initial spot prices never falls below its start by more than the summed "
            "allowances (weighted AM-GM); stableswap histories never leave the actor with more of something and less of "
            "nothing. MCCfmm: every <= 4-step swap/join/exit sequence on every integer pool with reserves and shares 1..8 "
            "(2.0e5 states quick) has no free lunch and never lowers x*y/S^2; each of five flipped rounding directions "
            "yields a free lunch. Recorder: 2-8 assets, weights 1..64, scaling factors 1..1e6, reserves 1..1e30 incl. "
            "strongly unbalanced, spread factors 0..0.95, exit fees 0/0.01/0.25, amounts from one unit to beyond the "
            "solvers' domain, plain histories and eight kinds of round trips on copies of the pool.",
    "note": "Trusted: TLC, BigNum java override, the recorder's logging of arguments / answers / reserves. Tolerances were "
            "calibrated against a python fractions/decimal mirror (3e4 balancer calls: worst one-sided deviation 0.50 Tau1). "
            "Keeper messages are not driven here (pool-model methods only; the keeper composes exactly these calls).",
}
BUILD = [("./app/cfmm/", "cfmm")]

MC_CFG = """SPECIFICATION Spec
CONSTANTS
  MaxR = %(maxr)d
  MaxS = %(maxs)d
  MaxSteps = %(steps)d
  Flip = "%(flip)s"
INVARIANTS %(inv)s
CHECK_DEADLOCK FALSE
"""
FLIPS = ["swapOutUp", "swapInDown", "joinSharesUp", "joinTokensDown", "exitUp"]

# shapes the trace spec reports instead of rejecting (see Cfmm.tla): each is a violation of the
# property statement on a real execution unless it is a listed open known finding
SHAPES = {
    "exitOne:pow-tail": (
        "bal.ExitSwapExactAmountOut:pow-series-tail-undercharges-shares",
        "balancer ExitSwapExactAmountOut burns fewer shares than the exact formula by more than the power precision: "
        "the base (Bo - out/phi)/Bo is < 1, the truncated series of osmomath.Pow over-estimates base^(wo/W) by up to "
        "1e-8*(1-base)/base, and here that error favours the exiter (observed up to 7.4e-5 of the share supply when "
        "99.99% of one reserve is taken out)"),
    "exitOne:round-down": (
        "bal.ExitSwapExactAmountOut:shares-in-truncated",
        "balancer ExitSwapExactAmountOut truncates the share amount it charges (TruncateInt) instead of rounding it up: "
        "with a small share supply the exiter pays up to one share unit less than the formula"),
    "exitOne:pow-tail+round-down": (
        "bal.ExitSwapExactAmountOut:pow-series-tail-undercharges-shares",
        "balancer ExitSwapExactAmountOut burns fewer shares than the exact formula (series tail of Pow and truncation)"),
    "swapIn:drains-entire-reserve": (
        "bal.SwapOutAmtGivenIn:pays-entire-reserve-balance-not-updated",
        "balancer SwapOutAmtGivenIn pays out the ENTIRE reserve of the out asset when (Bi/(Bi+a(1-f)))^(wi/wo) underflows to 0 "
        "at 18 decimals, and applySwap leaves the pool's balance of that asset unchanged (sdk.NewCoins drops the zero coin), "
        "so the pool object claims reserves it has paid away"),
    "stab.joinOne-twice:free-lunch": (
        "stab.JoinPool(single-asset)x2+ExitPool+swap-back:free-lunch",
        "stableswap, spread factor 0: two single-asset joins, one exit of the minted shares and swapping the proceeds back returns "
        "more than was put in (BinarySearchSingleAssetJoin prices shares by a simulated exit with truncated amounts: a claim on a "
        "scarce asset that rounds to 0 units is minted for free, two such claims add up to whole units)"),
}
RE_SHAPE = re.compile(r'^<<"KNOWN-SHAPE", "([^"]+)", (\d+)>>')


def big(b):
    x = 0
    for limb in reversed(b["m"]):
        x = x * 10000 + limb
    return -x if b["s"] < 0 else x


def enc(x):
    s = (x > 0) - (x < 0)
    x = abs(x)
    m = []
    while x:
        m.append(x % 10000)
        x //= 10000
    return {"s": s, "m": m}


def validate(trace_path, parallel, timeout=3000, heap="3g"):
    """Like vlib.validate_trace, but also returns the KNOWN-SHAPE reports {(shape, trace_line)}."""
    chunks = vlib.split_histories(trace_path, parallel)
    gen = dist = nlines = 0
    shapes = {}

    def one(ch):
        return ch, vlib.tlc("TraceCfmm.tla", "TraceCfmm.cfg", workers=1, timeout=timeout, env={"TRACE_FILE": ch[0]},
                            heap=heap, tag=PROP + "-trace")

    with concurrent.futures.ThreadPoolExecutor(max_workers=parallel) as ex:
        results = list(ex.map(one, chunks))
    for (p, first, n), r in results:
        if r.error:
            raise Infra("trace validation TraceCfmm: %s" % r.error)
        gen += r.generated
        dist += r.distinct
        nlines += n
        for pr in r.prints:
            m = RE_SHAPE.match(pr)
            if m:
                shapes.setdefault(m.group(1), set()).add(first + int(m.group(2)) - 1)
        if not r.ok:
            lines = open(p).read().split("\n")
            if r.rejected_line is not None and not r.violated:
                ln = r.rejected_line
                what = "recorded call is not a step of Cfmm.tla"
            else:
                ln = r.last_l if r.last_l else r.depth
                what = "property %s is false in a recorded state" % r.violated
            hstart = ln - 1
            while hstart > 0 and '"e":"cfg"' not in lines[hstart]:
                hstart -= 1
            detail = {"spec": "TraceCfmm.tla", "chunk_line": ln, "trace_line": first + ln - 1, "reason": what,
                      "violated": r.violated, "failed_checks": r.failed_checks[-3:],
                      "offending_event": lines[ln - 1] if 0 < ln <= len(lines) else None,
                      "history_prefix": lines[hstart:ln][-60:], "tlc_output": r.out}
            if r.failed_checks and not r.violated:
                what += ": " + r.failed_checks[-1]
            sig = None
            if r.failed_checks and not r.violated:
                m = re.search(r'"CHECK-FAILED", "([^"]+)"', r.failed_checks[-1])
                sig = m.group(1) if m else None
            raise Violation(PROP, what + (" (%s)" % r.violated if r.violated else ""), detail, sig or r.violated)
    for p, _, _ in chunks:
        try:
            os.remove(p)
        except OSError:
            pass
    return gen, dist, nlines, shapes


def history_of(lines, ln):
    """cfg line .. line ln (1-based) of the history containing ln."""
    k = ln - 1
    while k > 0 and '"e":"cfg"' not in lines[k]:
        k -= 1
    return lines[k:ln]


def corrupted_swap(lines):
    """A copy of one recorded history whose last line is a successful balancer swap (small reserves, so that the
    precision allowance is far below one unit) altered to pay ONE UNIT MORE; None if the trace has no such swap."""
    cfg = None
    start = 0
    for k, ln in enumerate(lines):
        if not ln:
            continue
        ev = json.loads(ln)
        if ev["e"] == "cfg":
            cfg, start = ev, k
            continue
        if cfg["kind"] == "bal" and ev["op"] == "swapIn" and ev["ok"] and k > start:
            prev = json.loads(lines[k - 1])
            bo = big(prev["B"][ev["o"] - 1])
            out = big(ev["res"])
            if 3 <= bo < 10 ** 6 and out + 1 < bo and big(prev["B"][ev["i"] - 1]) < 10 ** 12:
                ev["res"] = enc(out + 1)
                ev["B"][ev["o"] - 1] = enc(bo - out - 1)
                return lines[start:k] + [json.dumps(ev, separators=(",", ":"))]
    return None


def run(ctx):
    q = ctx.quick
    cov = {"samples": []}

    # 1. design level: exhaustive search for a profitable cycle on the integer pool
    ctx.leg = "mc"
    dims = dict(maxr=8, maxs=8, steps=4) if q else dict(maxr=10, maxs=10, steps=5)
    r = vlib.tlc("MCCfmm.tla", "mc.cfg", workers=vlib.NCPU, timeout=2400, heap="10g", tag=PROP + "-mc",
                 cfg_text=MC_CFG % dict(dims, flip="none", inv="NoFreeLunch ProductPerShare"))
    vlib.tlc_must_pass(r, "MCCfmm (code rounding directions)")
    if r.distinct < 10000:
        raise Infra("MCCfmm explored only %d states" % r.distinct)
    states, trans = r.distinct, r.generated
    log("MC: no free lunch / product per share monotone in %d distinct states (%d generated, depth %d, %.0fs)"
        % (r.distinct, r.generated, r.depth, r.wall))
    cov["mc_states"], cov["mc_transitions"], cov["mc_bounds"] = r.distinct, r.generated, dims
    witnesses = {}
    for flip in FLIPS:
        rf = vlib.tlc("MCCfmm.tla", "mc.cfg", workers=4, timeout=2400, heap="4g", tag=PROP + "-mcflip",
                      cfg_text=MC_CFG % dict(maxr=8, maxs=8, steps=4, flip=flip, inv="NoFreeLunch"))
        if rf.error:
            raise Infra("MCCfmm flip %s: %s" % (flip, rf.error))
        if rf.violated != "NoFreeLunch":
            raise Infra("MCCfmm with rounding direction %s flipped finds no free lunch: the model is not sensitive" % flip)
        witnesses[flip] = rf.depth
        vlib.shutil.rmtree(os.path.dirname(rf.out), ignore_errors=True)
    cov["mc_flipped_direction_witnesses"] = witnesses
    log("MC: each of %d flipped rounding directions yields a free lunch (non-vacuity)" % len(FLIPS))

    binary = vlib.build_test("./app/cfmm/", "cfmm")

    # 2. impl -> spec
    ctx.leg = "trace"
    nh, nops = (560, 8) if q else (9000, 9)
    ctx.params = {"histories": nh, "ops": nops}
    d = vlib.scratch(PROP + "-rec")
    trace = os.path.join(d, "cfmm.ndjson")
    vlib.run_test(binary, "TestRecord", {"VERIF_OUT": trace, "VERIF_SEED": ctx.seed, "VERIF_HISTORIES": nh,
                                         "VERIF_OPS": nops}, timeout=1500)
    counts = json.load(open(trace + ".stats.json"))
    lines = open(trace).read().split("\n")
    for k in (0, 1, 2):
        if k < len(lines) and lines[k]:
            cov["samples"].append({"trace_event": json.loads(lines[k])})
    need = ["op:bal:swapIn:ok", "op:bal:swapOut:ok", "op:bal:joinOne:ok", "op:bal:joinShares:ok", "op:bal:exitOne:ok",
            "op:bal:joinAll:ok", "op:bal:joinNoSwap:ok", "op:bal:exit:ok", "op:stab:swapIn:ok", "op:stab:swapOut:ok",
            "op:stab:joinOne:ok", "op:stab:joinAll:ok", "op:stab:joinNoSwap:ok", "op:stab:exit:ok",
            "op:bal:swapOut:fail", "op:bal:swapOut:panic", "op:stab:swapIn:fail",
            "hist:bal:plain", "hist:stab:plain", "hist:bal:swap-there-and-back", "hist:stab:swap-there-and-back",
            "hist:bal:join-exit", "hist:stab:join-exit", "hist:bal:joinone-exit-swapback", "hist:stab:joinone-exit-swapback"]
    for k in need:
        if counts.get(k, 0) == 0:
            raise Infra("recorder produced no %s events: driver is not exercising the property" % k)
    t1 = time.time()
    gen_, dist_, nlines, shapes = validate(trace, parallel=min(vlib.NCPU, 16))
    log("validated %d recorded lines of %d histories against Cfmm.tla in %.0fs" % (nlines, counts["histories"], time.time() - t1))

    # 3. the validator is not vacuous: a swap paying one unit more than recorded must be rejected
    ctx.leg = "corrupted"
    bad = corrupted_swap(lines)
    cov["corrupted_trace_rejected"] = None
    if bad:
        bp = os.path.join(d, "corrupted.ndjson")
        open(bp, "w").write("\n".join(bad) + "\n")
        rb = vlib.tlc("TraceCfmm.tla", "TraceCfmm.cfg", workers=1, timeout=600, env={"TRACE_FILE": bp}, heap="2g", tag=PROP + "-bad")
        if rb.error:
            raise Infra("corrupted-trace leg: " + rb.error)
        if rb.ok or rb.rejected_line != len(bad):
            raise Infra("a recorded swap altered to pay one unit more was not rejected at its line: the validator is vacuous")
        cov["corrupted_trace_rejected"] = rb.failed_checks[-1] if rb.failed_checks else True
        log("corrupted copy (swap pays one unit more) rejected: %s" % cov["corrupted_trace_rejected"])
    else:
        log("no small-reserve balancer swap in this trace to corrupt (skipped)")

    # known shapes of the unchanged tree -> findings (a Violation unless listed as open known findings)
    ctx.leg = "trace"
    shape_counts = {}
    for shape, lns in sorted(shapes.items()):
        if shape not in SHAPES:
            raise Infra("trace spec reported an unknown shape " + shape)
        sig, what = SHAPES[shape]
        shape_counts[shape] = len(lns)
        ln = min(lns)
        hist = history_of(lines, ln)
        ctx.finding(sig, what, {"shape": shape, "occurrences": len(lns), "trace_line": ln, "offending_event": lines[ln - 1],
                                "history_prefix": hist[-40:]})
    cov.update({"states": states + dist_, "transitions": trans + gen_,
                "traces_validated_against_impl": counts["histories"], "recorded_lines": nlines,
                "recorded_histories": counts["histories"], "event_kinds": counts,
                "successful_calls_checked": sum(v for k, v in counts.items() if k.startswith("op:") and k.endswith(":ok")),
                "known_shapes_reported": shape_counts, "known_findings_hit": dict(ctx.known_hit),
                "checker_cmd": "bin/check C04 --tier " + ctx.tier})
    vlib.write_evidence(PROP, ctx.tier, ctx.seed, "model_checking", cov, time.time() - ctx.t0,
                        ["TLC evaluator; BigNum.tla with its java.math.BigInteger override; Json/IOUtils community modules",
                         "the recorder logs arguments, answers and the pool's reserves / shares faithfully (it judges nothing); "
                         "each call runs on a copy that replaces the pool only on success, as the keeper persists pools",
                         "precision function: Tau1 = 1e-8 base^floor(e) + (ceil(e)+2) max(1, base^floor(e)) 1e-18 one-sided, "
                         "Tau2 = 2e-8 base^floor(e) max(1,(1-base)/base) + same for agreement (calibrated: worst 0.50 / 0.90)",
                         "integer weights (as every pool has): weight ratios are exact rationals p/q"])


def evidence_on_violation(ctx, v):
    vlib.write_evidence(PROP, ctx.tier, ctx.seed, "model_checking",
                        {"evaluations": 1, "distinct_nontrivial": 2, "samples": [v.what],
                         "explanation": "violation found in leg " + str(ctx.leg)}, time.time() - ctx.t0, [], 1)
