"""C15 - the reward accumulator pays each position exactly growth x shares held.
Spec: spec/Accum.tla.  Legs: exhaustive TLC on two bounded models (exact products /
every rounding to nearest), spec->impl replay of one behaviour per transition of the
bounded model on the real osmoutils/accum (three ways of holding the accumulator
handle), impl->spec validation of recorded random histories with BigNum arithmetic."""
import json, os, re, time
from fractions import Fraction
import vlib
from vlib import Infra, Violation, log

TRUST = ("Trusted: TLC evaluator, Json/IOUtils community modules, BigNum java override (differential-tested "
         "against its TLA+ definition), harness projection (reads accumulator and every position record "
         "back from the store; shared by both binding directions), go -overlay.")
MANIFEST = {
    "engine": "tlc+go-harness", "design_ref": "DESIGN.md section 4 (C15)",
    "technique": "TLA+ spec Accum.tla; TLC exhaustive MC (exact and all-roundings models); one TLC-generated behaviour per transition replayed on the real accum package; recorded histories trace-validated by TLC with BigNum",
    "text": "Accum.tla models the exported accumulator API (grow, create, add/remove/update shares, interval variants, set interval value, add unclaimed, claim, delete, failing calls) with a ghost 'ideal' = sum over time of growth-while-held x shares computed the naive way. TLC checks total = sum of shares, |claimable - ideal| <= nUpd/2 ulp, claim = floor(ideal) within that tolerance, claim resets only the claimer, deleted/claimed-empty positions vanish and failing calls change nothing, exhaustively on a bounded model with exact products (4.1e5 states quick, 3.4e6 thorough) and on one where every rounding to nearest is explored (1.6e5 / 2.3e6); every transition of a bounded exact model (4.2e4 quick, 3.9e5 thorough) is executed on the real osmoutils/accum over a MemDB store with fresh, held and two alternating handles and compared (outcome, payouts, full store state); seeded random histories (2-6 positions, 1-3 denoms, 18-decimal values from dust to 1e32, plain / free interval / concentrated-liquidity usage patterns, ~12% failing calls; position names that are prefixes of one another in half of the histories; every second history shares its store with neighbour accumulators whose name + position name concatenations collide with the accumulator under test - an operation on a neighbour must change nothing) recorded from the real code are validated line by line by TLC with every property as invariant.",
    "note": TRUST + " Preconditions of the property are respected by the drivers: a name is created only while it does not exist (NewPosition overwrites silently), 0 <= interval value <= accumulator value (DecCoins.Sub panics otherwise), non-negative growth/rewards. Handles are not used stale except where the code re-reads the total from the store.",
}
BUILD = [("./lite/accum/", "accum")]

MC_CFG = """SPECIFICATION MCSpec
CONSTANTS
  Unit = %(unit)d
  NZero = 0
  NAdd <- IAdd
  NSub <- ISub
  NMul <- IMul
  NLe <- ILe
  NOfNat <- IOfNat
  Names <- %(names)s
  NDen = 2
  GrowSet <- %(grow)s
  NewShares = {%(news)s}
  DeltaShares = {%(deltas)s}
  RewardSet <- %(rew)s
  MaxAcc = %(maxacc)d
  MaxDepth = %(depth)d
VIEW View
%(inv)s
CHECK_DEADLOCK FALSE
"""
PROPS = ("INVARIANTS TotalIsSum TracksIdeal Sane %s\n"
         "PROPERTIES ClaimPaysIdeal ClaimResetsOnlyClaimer DeleteRemoves FailedNoEffect NoSuccessOutOfThinAir")
EXACT = dict(unit=2, names="NamesA", grow="GrowA", news="2, 4", deltas="2", rew="RewA", maxacc=6)
ROUND = dict(unit=4, names="NamesA", grow="GrowB", news="1, 3", deltas="1, 2", rew="RewA", maxacc=7)

OPS = ("grow", "new", "newi", "add", "addi", "rem", "remi", "upd", "updi", "set", "addunc", "claim", "delete")
FAILING = ("add", "addi", "rem", "remi", "upd", "updi", "set", "addunc", "claim", "delete")


# ---------------------------------------------------------------------------
# independent exact mirror (python integers): used for calibration figures in the
# evidence and to name the deviating field when TLC rejects a line; never a verdict.

def _big(b):
    v = 0
    for i, x in enumerate(b["m"]):
        v += x * 10000 ** i
    return v * b["s"]


def _vec(v):
    return [_big(x) for x in v]


U = 10 ** 18


def mirror(lines):
    """Thread the ghost `ideal` / nUpd through recorded histories exactly as Accum.tla does and
    return (worst |claimable - ideal| / (nUpd * U/2) per nUpd bucket, number of states,
    worst |claim total - ideal| / ((nUpd+1) * U/2), claims off floor(ideal))."""
    worst, states, worst_claim, off_floor, claims = {}, 0, Fraction(0), 0, 0
    acc, pos, ideal, nupd = [], {}, {}, {}
    for e in lines:
        if e["e"] == "cfg":
            acc, pos, ideal, nupd = [0] * e["nd"], {}, {}, {}
            continue
        nd = len(acc)
        o, n, ok = e["op"], e["n"], e["ok"]
        st = e["st"]
        newacc = _vec(st["acc"])
        newpos = {p["n"]: (_big(p["sh"]), _vec(p["snap"]), _vec(p["unc"])) for p in st["pos"]}
        if ok:
            if o == "grow":
                g = _vec(e["g"])
                for m in pos:
                    ideal[m] = [ideal[m][d] + g[d] * pos[m][0] for d in range(nd)]
            elif o in ("new", "newi"):
                v = acc if o == "new" else _vec(e["v"])
                ideal[n] = [(acc[d] - v[d]) * _big(e["s"]) for d in range(nd)]
                nupd[n] = 0
            elif o in ("add", "addi", "rem", "remi", "upd", "updi"):
                v = acc if o in ("add", "rem", "upd") else _vec(e["v"])
                ns = newpos[n][0]
                ideal[n] = [ideal[n][d] + (acc[d] - v[d]) * ns for d in range(nd)]
                nupd[n] += 1
            elif o == "set":
                v = _vec(e["v"])
                ideal[n] = [ideal[n][d] - (v[d] - pos[n][1][d]) * pos[n][0] for d in range(nd)]
            elif o == "addunc":
                r = _vec(e["g"])
                ideal[n] = [ideal[n][d] + r[d] * U for d in range(nd)]
            elif o in ("claim", "delete"):
                res = _vec(e["res"])
                tot = [res[d] * U + _big(e["dust"][d]) for d in range(nd)] if o == "claim" else res
                for d in range(nd):
                    worst_claim = max(worst_claim, Fraction(abs(tot[d] * U - ideal[n][d]) * 2, (nupd[n] + 1) * U))
                    if o == "claim":
                        claims += 1
                        if res[d] != ideal[n][d] // (U * U):
                            off_floor += 1
                if n in newpos:
                    ideal[n], nupd[n] = [0] * nd, 0
                else:
                    del ideal[n], nupd[n]
        acc, pos = newacc, newpos
        for m, (sh, snap, unc) in pos.items():
            if m not in ideal:
                continue
            for d in range(nd):
                dev = abs(unc[d] * U + (acc[d] - snap[d]) * sh - ideal[m][d])
                states += 1
                k = nupd[m]
                if k == 0:
                    if dev != 0:
                        worst[0] = Fraction(10 ** 9)
                    continue
                b = k if k < 4 else 4
                worst[b] = max(worst.get(b, Fraction(0)), Fraction(dev * 2, k * U))
    return worst, states, worst_claim, off_floor, claims


def run(ctx):
    q = ctx.quick
    cov = {"samples": []}
    # development aid: VERIF_C15_LEGS=trace runs one binding direction alone (e.g. to see that each
    # direction catches a mutant by itself); the registered check always runs all three
    legs = os.environ.get("VERIF_C15_LEGS", "mc,replay,trace").split(",")
    # 1. design: exhaustive model checking of the bounded spec
    ctx.leg = "mc"
    mcs = [("exact", EXACT, 6 if q else 7, "ExactTracks"), ("round", ROUND, 5 if q else 6, "")]
    states = trans = 0
    cov["mc"] = {}
    for name, consts, depth, extra in (mcs if "mc" in legs else []):
        r = vlib.tlc("MCAccum.tla", "mc.cfg", workers=vlib.NCPU, timeout=3000, heap="12g", tag="C15-mc",
                     cfg_text=MC_CFG % dict(consts, depth=depth, inv=PROPS % extra), extra=["-coverage", "1000"], keep=True)
        vlib.tlc_must_pass(r, "MCAccum " + name)
        # non-vacuity of the model: every entry point and every failing call was taken
        txt = open(r.out, errors="replace").read()
        for act in ("MCGrow", "MCCreate", "MCChange", "MCSet", "MCAddUnc", "MCClaim", "MCDelete"):
            m = re.findall(r"<%s line .*?>: (\d+):(\d+)" % act, txt)
            if not m or all(int(b) == 0 for a, b in m):
                raise Infra("MCAccum %s: action %s was never taken (model is vacuous)" % (name, act))
        states += r.distinct
        trans += r.generated
        cov["mc"][name] = {"distinct": r.distinct, "generated": r.generated, "depth": depth, "wall_s": round(r.wall, 1)}
        log("MC %s: %d distinct / %d generated, %d calls deep, %.0fs" % (name, r.distinct, r.generated, depth, r.wall))

    binary = vlib.build_test("./lite/accum/", "accum")

    replayed, res = 0, {"runs": 0, "steps": 0, "last_ops": {}}
    if "replay" in legs:
        replayed, res, d_, g_ = replay_leg(ctx, binary, cov)
        states += d_
        trans += g_
    if "trace" not in legs:
        return
    trace_leg(ctx, binary, cov, states, trans, replayed, res)


def replay_leg(ctx, binary, cov):
    # 2. spec -> impl: every transition of the bounded exact model, replayed on the real package
    q = ctx.quick
    ctx.leg = "replay"
    gdepth = 4 if q else 5
    r = vlib.tlc("MCAccum.tla", "gen.cfg", workers=min(vlib.NCPU, 8), timeout=3000, heap="12g", tag="C15-gen", keep=True,
                 cfg_text=MC_CFG % dict(EXACT, depth=gdepth, inv="ACTION_CONSTRAINT EmitEdge"))
    vlib.tlc_must_pass(r, "MCAccum gen")
    d = os.path.dirname(r.out)
    gen = os.path.join(d, "gen.jsonl")
    n = vlib.extract_gen(r.out, gen)
    os.remove(r.out)
    if n == 0:
        raise Infra("generator produced no behaviours")
    vlib.run_test(binary, "TestReplay", {"VERIF_IN": gen, "VERIF_OUT": gen + ".result", "VERIF_UNIT": EXACT["unit"],
                                         "VERIF_SEED": ctx.seed}, timeout=3000)
    res = json.load(open(gen + ".result"))
    mm = res.get("mismatches") or []
    cov["samples"].append({"spec_behaviour": json.loads(open(gen).readline())})
    log("replayed %d spec behaviours x 3 handle modes (%d calls) on the real package: %d mismatches"
        % (res["behaviours"], res["steps"], len(mm)))
    for o in OPS:
        if res["last_ops"].get(o + ":ok", 0) == 0:
            raise Infra("generator produced no successful %s transition" % o)
    for o in FAILING:
        if res["last_ops"].get(o + ":fail", 0) == 0:
            raise Infra("generator produced no failing %s transition" % o)
    if mm:
        m = mm[0]
        beh = open(gen).read().split("\n")[m["behaviour"]]
        ctx.finding("replay:%s:%s" % (m["op"], m["what"].split(" of p")[0]),
                    "real accumulator deviates from the specification on a generated behaviour (%s handle) at call %d (%s): %s (want %s, got %s)"
                    % (m["mode"], m["step"], m["op"], m["what"], json.dumps(m["want"])[:300], json.dumps(m["got"])[:300]),
                    {"mismatch": m, "all_mismatches": mm, "behaviour": json.loads(beh), "unit": EXACT["unit"]})
    return res["behaviours"], res, r.distinct, r.generated


def trace_leg(ctx, binary, cov, states, trans, replayed, res):
    # 3. impl -> spec: recorded random histories validated line by line
    q = ctx.quick
    ctx.leg = "trace"
    nh, nops = (48, 200) if q else (480, 400)
    ctx.params = {"histories": nh, "ops": nops}
    d = vlib.scratch("C15-rec")
    trace = os.path.join(d, "accum.ndjson")
    vlib.run_test(binary, "TestRecord", {"VERIF_OUT": trace, "VERIF_SEED": ctx.seed,
                                         "VERIF_HISTORIES": nh, "VERIF_OPS": nops})
    kinds = {}
    lines = []
    with open(trace) as f:
        for i, ln in enumerate(f):
            e = json.loads(ln)
            lines.append(e)
            if i in (0, 1, 40):
                cov["samples"].append({"trace_event": e})
            if e["e"] == "op":
                key = e["op"] + (":ok" if e["ok"] else ":fail")
                kinds[key] = kinds.get(key, 0) + 1
                if e["op"] == "claim" and e["ok"] and all(p["n"] != e["n"] for p in e["st"]["pos"]):
                    kinds["claim:position-vanished"] = kinds.get("claim:position-vanished", 0) + 1
                if e["op"] == "claim" and e["ok"] and any(x["s"] != 0 for x in e["res"]):
                    kinds["claim:paid-coins"] = kinds.get("claim:paid-coins", 0) + 1
            else:
                for k in ("mode", "api", "values"):
                    kinds[k + ":" + e[k]] = kinds.get(k + ":" + e[k], 0) + 1
                if e.get("nbr"):
                    kinds["history:neighbours"] = kinds.get("history:neighbours", 0) + 1
    for o in OPS:
        if kinds.get(o + ":ok", 0) == 0:
            raise Infra("recorder produced no successful %s call: driver is not exercising the property" % o)
    for o in FAILING:
        if kinds.get(o + ":fail", 0) == 0:
            raise Infra("recorder produced no failing %s call: driver is not exercising the property" % o)
    for k in ("claim:position-vanished", "claim:paid-coins", "mode:fresh", "mode:held", "mode:two", "history:neighbours", "nbr:ok",
              "api:plain", "api:interval", "api:cl"):
        if kinds.get(k, 0) == 0:
            raise Infra("recorder produced no %s: driver is not exercising the property" % k)
    try:
        gen_, dist_, nlines = vlib.validate_trace("C15", "TraceAccum.tla", "TraceAccum.cfg", trace, timeout=2400)
    except Violation as v:
        ev = json.loads(v.detail.get("offending_event") or "{}")
        if ev.get("op") == "harness-panic":
            raise Infra("the recorder itself panicked on a state the specification accepted: " + str(ev.get("err")))
        sig = "trace:%s:%s:%s" % (ev.get("op", "?"), "ok" if ev.get("ok") else "fail", v.detail.get("violated") or "step")
        what = "%s: call %s(%s) %s" % (v.what, ev.get("op"), ev.get("n"), "succeeded" if ev.get("ok") else "failed: " + str(ev.get("err")))
        ctx.finding(sig, what, v.detail)
        gen_ = dist_ = 0
        nlines = len(lines)
    log("validated %d recorded events of %d histories against TraceAccum" % (nlines, nh))
    worst, nstates, worst_claim, off_floor, claims = mirror(lines)
    del lines
    if worst.get(0):
        raise Infra("mirror: a position with no rounding folded in deviates from ideal although TLC accepted the trace")
    calib = {"position_denom_states": nstates,
             "worst_dev_over_tolerance_by_nUpd(1,2,3,4+)": [round(float(worst.get(k, 0)), 4) for k in (1, 2, 3, 4)],
             "worst_claim_dev_over_tolerance": round(float(worst_claim), 4),
             "claims(per denom)": claims, "claims_not_equal_floor_of_ideal(within tolerance)": off_floor}
    log("calibration (python mirror): %s" % json.dumps(calib))
    cov.update({"states": states + dist_, "transitions": trans + gen_,
                "traces_validated_against_impl": nh + replayed,
                "recorded_histories": nh, "recorded_events": nlines, "event_kinds": kinds,
                "spec_behaviours_replayed": replayed, "replay_runs": res["runs"], "calls_replayed": res["steps"],
                "replayed_last_call_kinds": res["last_ops"], "tolerance_calibration": calib,
                "known_findings_hit": ctx.known_hit,
                "checker_cmd": "bin/check C15 --tier " + ctx.tier})
    vlib.write_evidence("C15", ctx.tier, ctx.seed, "model_checking", cov, time.time() - ctx.t0,
                        ["TLC evaluator; Json/IOUtils community modules; BigNum java override",
                         "harness projection: accumulator record + every position record read back from the MemDB store",
                         "driver preconditions: names created only while absent, 0 <= interval value <= accumulator value, non-negative growth/rewards",
                         "tolerance: half a unit of the 18th decimal per Dec multiplication the code performed (proved for every rounding to nearest on the bounded model)"])


def evidence_on_violation(ctx, v):
    vlib.write_evidence("C15", ctx.tier, ctx.seed, "model_checking",
                        {"evaluations": 1, "distinct_nontrivial": 2, "samples": [v.what],
                         "explanation": "violation found in leg " + str(ctx.leg)}, time.time() - ctx.t0, [], 1)
