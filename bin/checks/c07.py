"""C07 - concentrated pool bookkeeping always agrees with its positions.
Spec: spec/CL.tla (pure state transformers + invariants).  Legs: exhaustive TLC on the
bounded model MCCL; spec->impl replay of one TLC-generated behaviour per transition of bounded
models on a real pool (state compared after every call, exactly); every step of recorded
histories of a real pool validated by TraceCL."""
import concurrent.futures, json, os, shutil, subprocess, time
import vlib, checks.clcommon as clc
from vlib import Infra, Violation, log

MANIFEST = {
    "engine": "tlc+go-harness", "design_ref": "DESIGN.md section 4 (C07), 9.4",
    "technique": "TLA+ spec CL.tla; TLC exhaustive MC of the bookkeeping transformers; every transition of bounded models (TLC-generated behaviours) executed on a real pool and compared exactly after every call; recorded histories of the real pool trace-validated by TLC (state re-based each step, invariants in every state)",
    "text": "CL.tla gives create/withdraw/add/transfer/swap as pure transformers of (positions, initialised ticks, current tick/price/liquidity) and states C07 as invariants (active liquidity = in-range positions, gross/net per tick = boundary sums and no other ticks, price inside the current tick's bucket hence consistent with every position, empty pool has no price, ids/owners/ranges immutable). TLC proves the transformers preserve them on a bounded tick grid. Spec->impl: TLC prints one behaviour per transition of bounded models whose swaps are what a price-limited swap of the keeper can do (plus calls the code must refuse); they form a prefix tree that is executed node by node on a real pool (model tick t -> real tick Off + t*K, unit liquidity -> exactly 10^12 by create-and-trim, grid prices -> TickToSqrtPrice / mid-bucket price limits) on up to three tick geometries, and positions, initialised ticks with gross/net, current tick, sqrt price and active liquidity must equal the model state after EVERY call; a deviation is a violation when a clause of C07 evaluated on the real state alone is false. Impl->spec: every operation of recorded random histories of a real pool (all spacings, spread factors, prices 1e-11..1e11, crossing swaps both ways, failed ops) must equal the transformer's result on the previously logged state, with the invariants evaluated on every logged state (BigNum).",
    "note": "Trusted: TLC, BigNum override (differential-tested), harness projection through exported keeper getters (GetPosition, GetAllInitializedTicksForPool, GetUserPositions, pool getters), TickToSqrtPrice for the logged tick prices (its own correctness is C14). The replay reaches the keeper's unexported price-limited swap (swapOutAmtGivenIn, the body of SwapExactAmountIn) through a one-function file added to the package by a go build overlay; /repo is not edited.",
}
BUILD = clc.BUILD

CFG = """SPECIFICATION %(spec)s
CONSTANTS
  NZero = 0
  NAdd <- IntAdd
  NSub <- IntSub
  NLe <- IntLe
  MinT <- MinTVal
  MaxT = %(maxt)d
  Liqs = {1, 2}
  Owners = {%(owners)s}
  Creators = {%(owners)s}
  MaxPos = %(maxpos)d
  MaxId = %(maxid)d
VIEW View
%(tail)s
CHECK_DEADLOCK FALSE
"""
MC_TAIL = "INVARIANTS InvLiq InvTicks InvPrice InvEmpty InvWF\nPROPERTIES ImmutableStep"
GEN_TAIL = "ACTION_CONSTRAINT EmitEdge"

EXPORT_SRC = os.path.join(vlib.HARNESS, "app", "cl", "c07_export.go.src")
EXPORT_AS = "/repo/x/concentrated-liquidity/zz_verif_c07_export.go"

# what the generated behaviours must have exercised (summed over geometries), else the leg is vacuous
NEED_OPS = ("create:ok", "withdraw:ok", "add:ok", "transfer:ok", "swap:ok",
            "swap:refused", "withdraw:refused", "add:refused", "transfer:refused")
NEED_SITUATIONS = ("swap-down-stops-on-initialised-tick(tick-1)", "swap-up-stops-on-initialised-tick",
                   "swap-stops-on-uninitialised-tick", "swap-stops-inside-bucket", "swap-crossing>=2",
                   "swap-jumps-zero-liquidity-gap", "swap-recrosses-start-tick", "swap-passes-tick-just-emptied",
                   "withdraw-last-in-range-position", "withdraw-last-position(pool-uninitialised)",
                   "withdraw-deletes-tick-under-the-price", "create-leaves-shared-tick-with-net-zero",
                   "withdraw-leaves-shared-tick-with-net-zero", "create-reinitialises-emptied-pool",
                   "create-boundary-on-current-price", "create-first-price-inside-bucket")


def build_binary():
    """harness/app/cl with the export file overlaid into x/concentrated-liquidity (on top of the
    framework overlay and of a mutant overlay, if any).  Same recorder, plus TestReplay's entry point."""
    vlib.ensure_harness()
    base = json.load(open(vlib.overlay_file()))
    base["Replace"][EXPORT_AS] = EXPORT_SRC
    os.makedirs(os.path.join(vlib.BUILD, "bin"), exist_ok=True)
    ov = os.path.join(vlib.BUILD, "overlay.c07.%d.json" % os.getpid())
    json.dump(base, open(ov, "w"))
    suffix = ".%d" % os.getpid() if os.environ.get("VERIF_EXTRA_OVERLAY") else ""
    out = os.path.join(vlib.BUILD, "bin", "cl07" + suffix + ".test")
    t0 = time.time()
    try:
        r = subprocess.run(["go", "test", "-c", "-vet=off", "-tags", "verif", "-overlay", ov, "-o", out, "./app/cl/"],
                           cwd=vlib.HARNESS, env=vlib.go_env(), capture_output=True, text=True, timeout=1800)
    except subprocess.TimeoutExpired:
        raise Infra("go build timed out: ./app/cl/ (C07 overlay)")
    finally:
        if os.path.exists(ov):
            os.remove(ov)
    if r.returncode != 0:
        raise Infra("go build failed for ./app/cl/ with the C07 overlay:\n%s" % (r.stdout + r.stderr)[-4000:])
    log("built cl07 in %.0fs" % (time.time() - t0))
    return out


def replay_plans(quick):
    """(name, model bounds, tick geometries).  Ownership multiplies the state graph by ~4 without touching the
    tick bookkeeping, so the tick geometry is explored with one owner and ownership on a smaller grid."""
    if quick:
        return [("ticks", dict(maxt=2, maxpos=2, maxid=3, owners="1"), "s100"),
                ("owners", dict(maxt=1, maxpos=2, maxid=2, owners="1, 2"), "s1neg,s10k30")]
    # measured on the loaded 16-core box: ~0.3 ms wall per call with 12 processes; (maxpos 3, maxid 4) has 3.2e6
    # transitions and took 17 min on one geometry alone (passed, 0 deviations) - too long for the tier
    return [("ticks-3pos", dict(maxt=2, maxpos=3, maxid=3, owners="1"), "s100,s1neg,s10k30"),
            ("owners", dict(maxt=2, maxpos=2, maxid=3, owners="1, 2"), "s100")]


def replay_leg(ctx, binary, cov):
    q = ctx.quick
    ctx.leg = "replay"
    nproc = int(os.environ.get("VERIF_C07_PROCS") or min(vlib.NCPU, 8 if q else 12))   # parallel replay processes
    tot = {"behaviours": 0, "steps": 0, "compared": 0, "unchecked": 0, "not_reached": 0, "ops": {}, "situations": {},
           "plans": [], "states": 0, "transitions": 0}
    mism = []
    sample = None
    for name, b, geoms in replay_plans(q):
        r = vlib.tlc("MCCL.tla", "gen.cfg", workers=min(vlib.NCPU, 8), timeout=3000, heap="12g", tag="C07-gen", keep=True,
                     cfg_text=CFG % dict(b, spec="GenSpec", tail=GEN_TAIL))
        vlib.tlc_must_pass(r, "MCCL gen " + name)
        d = os.path.dirname(r.out)
        gen = os.path.join(d, "gen.jsonl")
        n = vlib.extract_gen(r.out, gen)
        os.remove(r.out)
        if n == 0:
            raise Infra("generator %s produced no behaviours" % name)
        nshard = nproc * (2 if q else 1)
        t0 = time.time()

        def one(i):
            out = "%s.result.%d" % (gen, i)
            vlib.run_test(binary, "TestReplay", {"VERIF_IN": gen, "VERIF_OUT": out, "VERIF_SHARD": "%d/%d" % (i, nshard),
                                                 "VERIF_GEOMS": geoms, "VERIF_MINT": -1, "VERIF_L0EXP": 12}, timeout=3000)
            return json.load(open(out))

        with concurrent.futures.ThreadPoolExecutor(max_workers=nproc) as ex:
            results = list(ex.map(one, range(nshard)))
        wall = time.time() - t0
        p = {"name": name, "bounds": b, "geometries": geoms, "model_states": r.distinct, "model_transitions": r.generated,
             "behaviours": 0, "steps": 0, "tlc_wall_s": round(r.wall, 1), "replay_wall_s": round(wall, 1), "processes": nproc}
        for res in results:
            p["behaviours"] += res["behaviours"]
            p["steps"] += res["steps"]
            for k in ("compared", "unchecked", "not_reached"):
                tot[k] += res[k]
            for k, v in res["ops"].items():
                tot["ops"][k] = tot["ops"].get(k, 0) + v
            for k, v in res["stats"].items():
                tot["situations"][k] = tot["situations"].get(k, 0) + v
            for m in res["mismatches"]:
                m["plan"] = name
                mism.append(m)
            p["n_mismatches"] = p.get("n_mismatches", 0) + res["n_mismatches"]
            if sample is None and res.get("sample"):
                sample = res["sample"]
        if p["behaviours"] != n:
            raise Infra("replay %s: %d behaviours generated but %d replayed" % (name, n, p["behaviours"]))
        tot["behaviours"] += p["behaviours"]
        tot["steps"] += p["steps"]
        tot["states"] += r.distinct
        tot["transitions"] += r.generated
        tot["plans"].append(p)
        log("replay %s: %d states / %d transitions of the model; %d behaviours x %s = %d calls on a real pool in %.0fs (%d processes): %d deviations"
            % (name, r.distinct, r.generated, p["behaviours"], geoms, p["steps"], wall, nproc, p["n_mismatches"]))
        shutil.rmtree(d, ignore_errors=True)     # (a deviating behaviour is kept in full in the replay file)
    ctx.params = dict(ctx.params, replay_plans=[(n_, b_, g_) for n_, b_, g_ in replay_plans(q)])
    if sample:
        cov["samples"].append({"replayed_behaviour": {k: sample[k] for k in ("geom", "ops", "model_state", "real_state", "ids")}})
    # verdict: a deviation is a violation when a clause of C07 is false on the REAL state / transition itself
    viol = [m for m in mism if m["clauses"]]
    if viol:
        m = viol[0]
        clause = m["clauses"][0].split(":")[0]
        what = ("generated behaviour (plan %s, geometry %s) call %d (%s): the real pool deviates from the specification [%s] and C07 is false on the real state: %s"
                % (m["plan"], m["geom"], m["step"], m["op"],
                   "; ".join("%s: model %s, real %s" % (x["field"], x["model"], x["real"]) for x in m["diffs"][:3])[:400], m["clauses"][0]))
        ctx.finding("replay:%s:%s" % (m["op"], clause), what,
                    {"mismatch": m, "ops_legend": "kind(1 create 2 withdraw 3 add 4 transfer 5 swap), by, id, lo, hi, dl, s, down, to, ok, nt (spec/mc/MCCL.tla Op)",
                     "other_mismatches": [{k: x[k] for k in ("plan", "geom", "step", "op", "ops", "kind", "diffs", "clauses")} for x in mism[1:8]],
                     "n_deviations": sum(p["n_mismatches"] for p in tot["plans"])})
    rest = [m for m in mism if not m["clauses"]]
    if rest and not viol:
        m = rest[0]
        raise Infra("replay: %d generated behaviours were answered differently by the real pool, but every clause of C07 holds on the "
                    "real states: the model of an operation (or the harness) needs attention. First: plan %s geometry %s call %d (%s, %s): %s; real error: %s; calls %s"
                    % (sum(p["n_mismatches"] for p in tot["plans"]), m["plan"], m["geom"], m["step"], m["op"], m["kind"],
                       "; ".join("%s: model %s, real %s" % (x["field"], x["model"], x["real"]) for x in m["diffs"][:3])[:400],
                       m["real_err"][:200], json.dumps(m["ops"])))
    if tot["unchecked"]:
        raise Infra("replay: %d calls had no expected state (the generated set is not prefix closed)" % tot["unchecked"])
    sit = {}
    for k, v in tot["situations"].items():
        sit[k.split(":", 1)[1]] = sit.get(k.split(":", 1)[1], 0) + v
    for k in NEED_OPS:
        if tot["ops"].get(k, 0) == 0:
            raise Infra("replay: no generated behaviour ends in '%s': the generator does not exercise the property" % k)
    for k in NEED_SITUATIONS:
        if sit.get(k, 0) == 0:
            raise Infra("replay: no generated behaviour exercises '%s'" % k)
    tot["situations_all_geometries"] = sit
    return tot


def run(ctx):
    q = ctx.quick
    cov = {"samples": []}
    # development aid: VERIF_C07_LEGS=replay runs one leg alone (e.g. to see that each binding direction catches
    # a mutant by itself); the registered check always runs all three
    legs = os.environ.get("VERIF_C07_LEGS", "mc,replay,trace").split(",")
    ctx.leg = "mc"
    states = trans = 0
    if "mc" in legs:
        b = dict(maxt=2, maxpos=2, maxid=3, owners="1, 2") if q else dict(maxt=2, maxpos=3, maxid=3, owners="1, 2")
        r = vlib.tlc("MCCL.tla", "mc.cfg", workers=vlib.NCPU, timeout=2400, heap="12g", tag="C07-mc",
                     cfg_text=CFG % dict(b, spec="MCSpec", tail=MC_TAIL))
        vlib.tlc_must_pass(r, "MCCL")
        log("MC: %d distinct / %d generated states, depth %d, %.0fs" % (r.distinct, r.generated, r.depth, r.wall))
        states, trans = r.distinct, r.generated
        cov.update({"mc_states": r.distinct, "mc_transitions": r.generated})
    binary = build_binary()
    rep = None
    if "replay" in legs:
        rep = replay_leg(ctx, binary, cov)
        states += rep["states"]
        trans += rep["transitions"]
        cov.update({"spec_behaviours_replayed": rep["behaviours"], "replay_steps": rep["steps"], "replay_states_compared": rep["compared"],
                    "replay_ops": rep["ops"], "replay_situations": rep["situations_all_geometries"],
                    "replay_situations_by_geometry": rep["situations"], "replay_plans": rep["plans"],
                    "replay_mapping": "model tick t -> real tick Off + t*K (s100: spacing 100, K 100, Off 0; s1neg: spacing 1, K 1, Off -50000; s10k30: spacing 10, K 30, Off 4000010); "
                                      "unit liquidity -> exactly 1e12 (create with ample tokens, trim by partial withdrawal in the same transaction); grid point s: even -> "
                                      "TickToSqrtPrice(tick), odd -> sqrt of the mean of the two tick prices; swaps = swapOutAmtGivenIn with 1e30 in and the grid price as limit"})
    if "trace" not in legs:
        return
    ctx.leg = "trace"
    nh, nops = (24, 80) if q else (320, 150)
    ctx.params = dict(ctx.params, histories=nh, ops=nops)
    trace = clc.record(ctx, "C07", nh, nops, binary=binary)
    kinds, samples, n = clc.summarise(trace)
    clc.need(kinds, ["create:ok", "withdraw:ok", "add:ok", "transfer:ok", "swap:ok", "swap:fail", "create:fail",
                     "swap:crossing-initialised-ticks"])
    gen, dist, nlines = vlib.validate_trace("C07", "TraceCL.tla", "TraceCL.cfg", trace, timeout=2400)
    log("validated %d recorded events of %d histories against TraceCL" % (nlines, nh))
    cov["samples"] += samples
    cov.update({"states": states + dist, "transitions": trans + gen,
                "traces_validated_against_impl": nh + (rep["behaviours"] if rep else 0),
                "recorded_histories": nh, "recorded_events": nlines, "event_kinds": kinds,
                "checker_cmd": "bin/check C07 --tier " + ctx.tier})
    vlib.write_evidence("C07", ctx.tier, ctx.seed, "model_checking", cov, time.time() - ctx.t0,
        ["TLC; BigNum java override (checked against the TLA+ definitions in setup)",
         "harness projection of pool/positions/ticks through exported keeper getters (one function, shared by recorder and replayer)",
         "sqrt prices of ticks are taken from TickToSqrtPrice (C14 decides that function)",
         "replay: swaps go through the keeper's unexported swapOutAmtGivenIn (the body of SwapExactAmountIn) with a caller-chosen price limit, reached through an overlay-injected wrapper",
         "replay: a generated call the real code answers differently is a violation only when a clause of C07 evaluated on the real state alone is false; any other deviation makes the check undecided"])


def evidence_on_violation(ctx, v):
    vlib.write_evidence("C07", ctx.tier, ctx.seed, "model_checking",
                        {"evaluations": 1, "distinct_nontrivial": 2, "samples": [v.what],
                         "explanation": "violation found in leg " + str(ctx.leg)}, time.time() - ctx.t0, [], 1)
