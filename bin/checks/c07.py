"""C07 - concentrated pool bookkeeping always agrees with its positions.
Spec: spec/CL.tla (pure state transformers + invariants).  Legs: exhaustive TLC on the
bounded model MCCL; every step of recorded histories of a real pool validated by TraceCL."""
import json, os, time
import vlib, checks.clcommon as clc
from vlib import Infra, Violation, log

MANIFEST = {
    "engine": "tlc+go-harness", "design_ref": "DESIGN.md section 4 (C07)",
    "technique": "TLA+ spec CL.tla; TLC exhaustive MC of the bookkeeping transformers; recorded histories of the real pool trace-validated by TLC (state re-based each step, invariants in every state)",
    "text": "CL.tla gives create/withdraw/add/transfer/swap as pure transformers of (positions, initialised ticks, current tick/price/liquidity) and states C07 as invariants (active liquidity = in-range positions, gross/net per tick = boundary sums and no other ticks, price inside the current tick's bucket hence consistent with every position, empty pool has no price, ids/owners/ranges immutable). TLC proves the transformers preserve them on a bounded tick grid; every operation of recorded random histories of a real pool (all spacings, spread factors, prices 1e-11..1e11, crossing swaps both ways, failed ops) must equal the transformer's result on the previously logged state, with the invariants evaluated on every logged state (BigNum).",
    "note": "Trusted: TLC, BigNum override (differential-tested), harness projection through exported keeper getters (GetPosition, GetAllInitializedTicksForPool, GetUserPositions, pool getters), TickToSqrtPrice for the logged tick prices (its own correctness is C14).",
}
BUILD = clc.BUILD

MC_CFG = """SPECIFICATION MCSpec
CONSTANTS
  NZero = 0
  NAdd <- IntAdd
  NSub <- IntSub
  NLe <- IntLe
  MinT <- MinTVal
  MaxT = %(maxt)d
  Liqs = {1, 2}
  Owners = {1, 2}
  MaxPos = %(maxpos)d
  MaxId = %(maxid)d
INVARIANTS InvLiq InvTicks InvPrice InvEmpty InvWF
PROPERTIES ImmutableStep
CHECK_DEADLOCK FALSE
"""


def run(ctx):
    q = ctx.quick
    ctx.leg = "mc"
    b = dict(maxt=2, maxpos=2, maxid=3) if q else dict(maxt=2, maxpos=3, maxid=3)
    r = vlib.tlc("MCCL.tla", "mc.cfg", workers=vlib.NCPU, timeout=2400, heap="12g", tag="C07-mc", cfg_text=MC_CFG % b)
    vlib.tlc_must_pass(r, "MCCL")
    log("MC: %d distinct / %d generated states, depth %d, %.0fs" % (r.distinct, r.generated, r.depth, r.wall))
    ctx.leg = "trace"
    nh, nops = (24, 80) if q else (320, 150)
    ctx.params = {"histories": nh, "ops": nops}
    trace = clc.record(ctx, "C07", nh, nops)
    kinds, samples, n = clc.summarise(trace)
    clc.need(kinds, ["create:ok", "withdraw:ok", "add:ok", "transfer:ok", "swap:ok", "swap:fail", "create:fail",
                     "swap:crossing-initialised-ticks"])
    gen, dist, nlines = vlib.validate_trace("C07", "TraceCL.tla", "TraceCL.cfg", trace, timeout=2400)
    log("validated %d recorded events of %d histories against TraceCL" % (nlines, nh))
    vlib.write_evidence("C07", ctx.tier, ctx.seed, "model_checking", {
        "states": r.distinct + dist, "transitions": r.generated + gen, "traces_validated_against_impl": nh,
        "mc_states": r.distinct, "mc_transitions": r.generated, "recorded_events": nlines, "event_kinds": kinds,
        "samples": samples, "checker_cmd": "bin/check C07 --tier " + ctx.tier}, time.time() - ctx.t0,
        ["TLC; BigNum java override (checked against the TLA+ definitions in setup)",
         "harness projection of pool/positions/ticks through exported keeper getters",
         "sqrt prices of ticks are taken from TickToSqrtPrice (C14 decides that function)"])


def evidence_on_violation(ctx, v):
    vlib.write_evidence("C07", ctx.tier, ctx.seed, "model_checking",
                        {"evaluations": 1, "distinct_nontrivial": 2, "samples": [v.what]}, time.time() - ctx.t0, [], 1)
