"""C11 - superfluid staking: stake tracks locks, supply is neutral, locks stay bonded.
Spec: spec/Superfluid.tla (EXTENDS Lockup: synthetic-lock markers, lock -> intermediary account
connections, intermediary accounts, their staking delegation, stored multipliers vs live pools, bank
supply and offset of the bond denom).  Legs: exhaustive TLC of the bounded model (MCSuperfluid; the
drift bound is proved there for the code's arithmetic), impl->spec validation of recorded random
histories of the full app (real staking / bank / lockup / gamm / concentrated-liquidity keepers, epochs
through the whole-application begin blocker) with everything read back after every call."""
import concurrent.futures, json, os, re, time
import vlib
from vlib import Infra, Violation, log

TRUST = ("Trusted: TLC evaluator, Json/IOUtils community modules, the BigNum java override (differentially tested in setup), "
         "harness projection functions, go -overlay.")
MANIFEST = {
    "engine": "tlc+go-harness", "design_ref": "DESIGN.md section 4 (C11)",
    "technique": "TLA+ spec Superfluid.tla extending Lockup.tla; TLC exhaustive MC of a bounded model (2 validators x 2 owners x <=3 locks) "
                 "with the code's mint/burn arithmetic; recorded random histories of the full app (2-3 validators, 2-4 owners, 1-2 superfluid "
                 "gamm share denoms + a concentrated full-range denom, swaps between epochs, 5-20+ epochs) trace-validated by TLC with "
                 "arbitrary-precision arithmetic",
    "text": "Superfluid.tla adds to Lockup: synthetic-lock markers (bonded / unbonding with end time), lock->intermediary-account connections, "
            "intermediary accounts with gauge, their stake, stored OSMO multipliers vs the live pool state, bank supply + offset, unbonding time, "
            "risk factor. Actions: MsgSuperfluidDelegate, Undelegate, UnbondLock, UndelegateAndUnbondLock (whole / split), LockAndSuperfluidDelegate, "
            "CreateFullRangePositionAndSuperfluidDelegate, AddToConcentratedLiquiditySuperfluidPosition, top-ups of delegated locks (MsgLockTokens / "
            "AddTokensToLockByID), MsgBeginUnlocking(All), "
            "MsgExtendLockup, UnlockMaturedLock, lockup EndBlocker sweep, swaps, blocks and epoch blocks (multiplier refresh from the pools, then "
            "every account's stake := RiskAdjusted(Round(multiplier x total of connected lock records)), round-half-even as documented). "
            "Checked after every step: stake == that value exactly after an epoch and within one base unit per separately rounded lock "
            "conversion in between; exactly one bonded marker per delegated lock, one unbonding marker per undelegating lock ending at "
            "undelegation time + unbonding period and lasting until then; supply-with-offset unchanged by every mint/burn (delegate, undelegate, "
            "top-up, refresh up and down); BeginUnlocking / ExtendLockup refused while a marker exists; no lock paid out while delegated or "
            "before its unbonding marker matured; stored multiplier constant between epochs and equal to the pool's OSMO per share at the epoch; "
            "the code's GetExpectedDelegationAmount (synthetic accumulation store) equals the value of the connected lock records.",
    "note": TRUST + " Transactions emulated like baseapp (ValidateBasic, cache context + recover). Tolerance between epochs is counted per "
            "converted lock (delegate / undelegate / top-up since the last exact refresh, +1 for the rounded base): counting only the locks "
            "currently connected is false for the code's own per-lock rounding (the bounded model exhibits it; measured on every run as "
            "strict_per_current_lock_exceeded). Validators other than the block signer are jailed without slash and released (a step that changes nothing in the specification); the first owner of every history is on the lockup force-unlock list and sends MsgForceUnlock in every superfluid state. Validator slashing (exchange rate != 1), governance removal of superfluid assets, "
            "unpool / migration / UnbondConvertAndStake are outside the driver's alphabet. "
            "No spec->impl replay leg (multipliers cannot be set to model values through a public entry point).",
}
BUILD = [("./app/superfluid/", "superfluid")]

MC_CFG = """SPECIFICATION MCSpec
CONSTANTS
  Scale = 2
  NAdd <- IAdd
  NSub <- ISub
  NMul <- IMul
  NLe <- ILe
  NOfNat <- IOfNat
  NFloorDiv <- IFloorDiv
  MOwners = {"o1", "o2"}
  MVals = {"v1", "v2"}
  MDenoms = {"lp"}
  Durs = {%(durs)s}
  Amts = {1, 2}
  Fund = %(fund)d
  MaxLocks = 3
  MaxT = 5
  MaxSteps = %(steps)d
  Dts = {1, 2}
  Unbond = 2
  RiskRaw = %(risk)d
  PoolNums = {%(nums)s}
  PoolDen = 2
VIEW View
%(inv)s
CHECK_DEADLOCK FALSE
"""
INV = ("INVARIANTS TypeOK ModuleHoldsLocked AccumExact RefsExact EndAfterDuration "
       "TypeOKSF MarkersExact StaysBonded LockOutlivesMarker TracksExpected RefusedWhileHeld SupplyIsStake\n"
       "PROPERTIES TimeLockedSF ScheduleFixed ConservedSF SupplyNeutral MarkerLasts WithdrawAfterUndelegation "
       "NoUnlockWhileDelegated MultiplierOnlyAtEpoch")


def mc_cfg(steps=5, durs="2", fund=3, risk=1, nums="2, 3", inv=INV):
    return MC_CFG % dict(steps=steps, durs=durs, fund=fund, risk=risk, nums=nums, inv=inv)


NEED = ("lock", "add", "sfdelegate", "sfundelegate", "sfunbond", "sfundelunbond", "sfundelunbond:split", "locksfdelegate",
        "topup:delegated", "clcreate", "cladd", "cladd:refused", "begin", "begin:split", "endblock", "swap", "block", "epoch", "fund", "history:cl",
        "sfdelegate:refused", "sfundelegate:refused", "sfunbond:refused", "begin:refused:delegated", "begin:refused:undelegating",
        "unlock:refused:undelegating", "extend:refused:held",
        "history:crash-script", "refresh:locks-worth-zero", "refresh:restaked-from-zero", "jail", "topup:delegated-to-jailed", "force", "force:refused:undelegating", "force:refused:delegated")


def big(b):
    x = 0
    for limb in reversed(b["m"]):
        x = x * 10000 + limb
    return x if b["s"] >= 0 else -x


def scan_trace(path):
    """measured facts of the recorded run (non-vacuity and the drift the tolerance is about)"""
    s = {"account_states": 0, "drift_histogram": {}, "strict_per_current_lock_exceeded": 0, "refresh_up": 0, "refresh_down": 0,
         "markers_swept": 0, "max_locks": 0, "max_connected": 0, "max_epochs_in_history": 0, "max_stake_digits": 0,
         "supply_moves": 0, "module_invariant_broken_events": 0, "lock_amount_magnitudes": {}, "gauge_reward_states": 0}
    prev, epochs, rep0 = None, 0, None
    with open(path) as f:
        for ln in f:
            e = json.loads(ln)
            sf = e["sf"]
            if e["e"] == "cfg":
                prev, epochs = None, 0
            ds = {(x["d"], x["v"]): big(x["deleg"]) for x in sf["ias"]}
            for x in sf["ias"]:
                d = abs(big(x["deleg"]) - big(x["exp"]))
                s["account_states"] += 1
                s["drift_histogram"][d] = s["drift_histogram"].get(d, 0) + 1
                if d > x["n"]:
                    s["strict_per_current_lock_exceeded"] += 1
                s["max_stake_digits"] = max(s["max_stake_digits"], len(str(big(x["deleg"]))))
                if big(x["rew"]) > 0:
                    s["gauge_reward_states"] += 1
            if e.get("a") == "block" and e.get("tick") and prev is not None:
                epochs += 1
                s["max_epochs_in_history"] = max(s["max_epochs_in_history"], epochs)
                for k, v in ds.items():
                    if k in prev[0]:
                        if v > prev[0][k]:
                            s["refresh_up"] += 1
                        elif v < prev[0][k]:
                            s["refresh_down"] += 1
            if e.get("a") == "endblock" and prev is not None:
                s["markers_swept"] += max(0, prev[1] - sum(1 for m in sf["synth"] if m["k"] == "U"))
            if prev is not None and prev[2] != big(sf["supply"]["raw"]):
                s["supply_moves"] += 1
            s["max_locks"] = max(s["max_locks"], len(e["st"]["locks"]))
            s["max_connected"] = max(s["max_connected"], len(sf["conn"]))
            if sf.get("invbad"):
                s["module_invariant_broken_events"] += 1
            if e["e"] == "op" and e["ok"] and e["a"] in ("lock", "locksfdelegate"):
                k = "1e%d" % (len(str(max(1, e["amt"]))) - 1)
                s["lock_amount_magnitudes"][k] = s["lock_amount_magnitudes"].get(k, 0) + 1
            prev = (ds, sum(1 for m in sf["synth"] if m["k"] == "U"), big(sf["supply"]["raw"]))
    s["drift_histogram"] = {str(k): v for k, v in sorted(s["drift_histogram"].items())}
    return s


def summarise(ev):
    try:
        e = json.loads(ev)
    except Exception:
        return str(ev)[:400]
    return {k: e[k] for k in ("e", "a", "o", "d", "x", "amt", "id", "v", "y", "ok", "panicked", "err", "rid", "tick") if k in e}


def mismatches_of(tlc_out, limit=6):
    res = []
    try:
        txt = open(tlc_out, errors="replace").read()
    except OSError:
        return res
    for m in re.finditer(r'<<\s*"(MISMATCH|CHECK-FAILED)",.*?>>\n(?=\S)', txt, re.S):
        res.append(re.sub(r"\s+", " ", m.group(0))[:1800])
        if len(res) >= limit:
            break
    return res


def run(ctx):
    q = ctx.quick
    cov = {"samples": []}
    legs = set((os.environ.get("VERIF_C11_LEGS") or "mc,trace").split(","))
    # ------------------------------------------------------------------ 1. design: exhaustive model checking
    ctx.leg = "mc"
    runs = [("1 denom, amounts 1-2, multipliers 1.0/1.5 (raw 2/3 at scale 2), risk 0.5, unbonding 2, time 0-5, depth %d: all invariants and step properties"
             % (5 if q else 7), mc_cfg(steps=5 if q else 7), True)]
    if not q:
        runs += [("risk 0, multipliers 1.0/1.5/2.0, lock durations 2-3, depth 5: all invariants and step properties",
                  mc_cfg(steps=5, durs="2, 3", risk=0, nums="2, 3, 4"), True)]
    # non-vacuity of the model: drift, a split and the literal per-current-lock bound being exceeded are all reachable
    for inv in ("NeverDrifts", "NeverPartial", "StrictPerLock"):
        runs.append(("reachability witness: " + inv + " must be violated", mc_cfg(steps=7, inv="INVARIANTS " + inv), False))
    if "mc" not in legs:
        runs = []
    states = trans = 0
    cov["mc_runs"] = []
    for name, cfg, must_hold in runs:
        r = vlib.tlc("MCSuperfluid.tla", "mc.cfg", workers=vlib.NCPU, timeout=3000, heap="6g", tag="C11-mc", cfg_text=cfg)
        if must_hold:
            vlib.tlc_must_pass(r, "MCSuperfluid " + name)
            states += r.distinct
            trans += r.generated
        else:
            if r.error or not r.violated:
                raise Infra("MCSuperfluid %s: expected a counterexample, got %s" % (name, r.error or "none"))
        cov["mc_runs"].append({"run": name, "distinct": r.distinct, "generated": r.generated, "wall_s": round(r.wall, 1),
                               "result": "holds" if must_hold else "witness found"})
        log("MC %s: %d distinct / %d generated, %.0fs" % (name, r.distinct, r.generated, r.wall))
    cov["mc_states"], cov["mc_transitions"] = states, trans
    if "trace" not in legs:
        log("legs %s only: no evidence written" % sorted(legs))
        return

    # ------------------------------------------------------------------ 2. impl -> spec: recorded random histories
    ctx.leg = "trace"
    binary = vlib.build_test("./app/superfluid/", "superfluid")
    nh, nops, nrec = (48, 180, 4) if q else (384, 230, 16)
    ctx.params = {"histories": nh, "ops": nops}
    d = vlib.scratch("C11-rec")
    trace = os.path.join(d, "superfluid.ndjson")

    def record(i):
        p = "%s.%d" % (trace, i)
        out = vlib.run_test(binary, "TestRecord", {"VERIF_OUT": p, "VERIF_SEED": int(ctx.seed) * 1000 + i,
                                                   "VERIF_HISTORIES": nh // nrec, "VERIF_OPS": nops}, timeout=2400)
        m = re.search(r"counts=(\{.*\})", out)
        return p, json.loads(m.group(1)) if m else {}
    t1 = time.time()
    with concurrent.futures.ThreadPoolExecutor(max_workers=nrec) as ex:
        recs = list(ex.map(record, range(nrec)))
    counts = {}
    with open(trace, "w") as f:
        for p, c in recs:
            with open(p) as g:
                for ln in g:
                    f.write(ln)
            os.remove(p)
            for k, v in c.items():
                counts[k] = counts.get(k, 0) + v
    log("recorded %d histories x %d calls from the real app in %.0fs" % (nh, nops, time.time() - t1))
    facts = scan_trace(trace)
    with open(trace) as f:
        for i, ln in enumerate(f):
            if i in (3, 40):
                cov["samples"].append({"trace_event": json.loads(ln)})
            if i > 40:
                break
    try:
        gen_, dist_, nlines = vlib.validate_trace("C11", "TraceSuperfluid.tla", "TraceSuperfluid.cfg", trace, timeout=2400,
                                                  heap="2g")
    except Violation as v:
        det = v.detail
        ms = mismatches_of(det.get("tlc_output", ""))
        ev = summarise(det.get("offending_event") or "{}")
        det["call"] = ev
        det["mismatch"] = ms
        det["offending_event"] = json.dumps(ev)
        det["history_prefix"] = [json.dumps(summarise(x)) for x in det.get("history_prefix", [])]
        what = v.what + " after " + json.dumps(ev) + ((": " + ms[-1][:700]) if ms else "")
        sig = "trace:%s:%s" % (det.get("violated") or "step", ev.get("a") if isinstance(ev, dict) else "?")
        raise Violation("C11", what, det, sig)
    # non-vacuity (after the validation: a broken tree may also starve the driver)
    for need in NEED:
        if counts.get(need, 0) == 0:
            raise Infra("recorder produced no %s events: driver is not exercising the property" % need)
    for need in ("refresh_up", "refresh_down", "markers_swept", "gauge_reward_states"):
        if facts[need] == 0:
            raise Infra("no %s in the recorded histories: driver is not exercising the property" % need)
    if facts["max_epochs_in_history"] < 5:
        raise Infra("no history with at least 5 epochs")
    if facts["strict_per_current_lock_exceeded"] > 0:
        # the statement's literal bound (one base unit per lock CURRENTLY delegated) is exceeded by the real code;
        # the per-conversion bound the trace spec enforces is the strongest one the arithmetic admits
        ctx.finding("stake-drift>currently-delegated-locks:per-conversion-rounding",
                    "between epochs an intermediary account's stake differs from the expected amount by more than one base "
                    "unit per lock currently delegated through it (%d of %d recorded account states, max drift %s)"
                    % (facts["strict_per_current_lock_exceeded"], facts["account_states"], max(facts["drift_histogram"])),
                    {"drift_histogram": facts["drift_histogram"]})
    log("validated %d recorded events of %d histories against TraceSuperfluid; drift histogram %s, literal per-current-lock bound exceeded in %d of %d account states"
        % (nlines, nh, facts["drift_histogram"], facts["strict_per_current_lock_exceeded"], facts["account_states"]))
    cov.update({"states": states + dist_, "transitions": trans + gen_,
                "traces_validated_against_impl": nh,
                "recorded_histories": nh, "recorded_events": nlines, "event_kinds": counts, "measured": facts,
                "checker_cmd": "bin/check C11 --tier " + ctx.tier})
    vlib.write_evidence("C11", ctx.tier, ctx.seed, "model_checking", cov, time.time() - ctx.t0,
                        ["TLC evaluator; Json/IOUtils community modules; BigNum java override",
                         "harness projection: lock records by id, GetAllSyntheticLockups, GetAllIntermediaryAccounts, GetAllLockIdIntermediaryAccountConnections, "
                         "StakingKeeper.GetDelegation + validator.TokensFromShares, GetOsmoEquivalentMultiplier, bank GetSupply / GetSupplyOffset / GetSupplyWithOffset",
                         "transactions emulated as baseapp does: ValidateBasic, cache context written only on success, panics recovered; blocks = whole-app BeginBlocker, "
                         "lockup EndBlocker on demand",
                         "rounding of Dec.RoundInt / Dec.Mul taken as documented (to nearest, ties to even); the multiplier is only required to be within one raw unit of OSMO-in-pool / shares",
                         "tolerance between epochs counted per separately rounded lock conversion since the last exact refresh (+1 for the rounded base), proved in the bounded model",
                         "exchange rate 1 (no slashing in the alphabet); mint module's epoch not reached within a history (supply otherwise only moved by the driver's fee funding)"])


def evidence_on_violation(ctx, v):
    vlib.write_evidence("C11", ctx.tier, ctx.seed, "model_checking",
                        {"evaluations": 1, "distinct_nontrivial": 2, "samples": [v.what[:2000]],
                         "explanation": "violation found in leg " + str(ctx.leg)}, time.time() - ctx.t0, [], 1)
