"""X07 (extra) - x/txfees: fee-token registry, mempool / consensus fee floor of the ante handler, fee accounting.
Spec: spec/TxFees.tla (properties R1-R5, F1-F4, A1-A3, C1-C2 in its header).  Legs:
  mc      exhaustive TLC of the bounded model MCTxFees (four price families: node at the consensus minimum with
          surcharges, everything free, node above consensus, consensus above node; a registry-heavy configuration),
          all properties, per-action coverage
  replay  one behaviour per distinct (state, shape of the last call that changed nothing) of the model, executed on
          the real application: governance handler / message server / queries / ConvertToBaseToken, and real signed
          transactions through CheckTx, RecheckTx, Simulate and FinalizeBlock + Commit on an application built with the
          family's node options; outcome class, registry, committed ledgers, mempool view and queries compared after
          every call
  trace   seeded random histories recorded from the real code (own application per history: random node options,
          consensus minimum, base denomination, five weighted pools, three signers) as ndjson and validated line by
          line by TLC against TraceTxFees (BigNum), every property as invariant / action property
Where the statement is an inequality (the conversion is to the nearest base unit) the specification checks the
inequality; quotes of pools are inputs, checked against the pools' reserves and weights for direction (1e-6)."""
import concurrent.futures, json, os, re, shutil, time
from fractions import Fraction
import vlib
from vlib import Infra, Violation, log

PROP = "X07"
TRUST = ("Trusted: TLC evaluator, Json/IOUtils community modules, BigNum java override, the harness (application builder with "
         "node options, transaction builder/signing, classification ok / refused in the ante phase / failed after it from "
         "baseapp's result, projection of registry / bank ledgers in the committed and the check state - shared by both "
         "binding directions), go -overlay.")
MANIFEST = {
    "engine": "tlc+go-harness", "design_ref": "docs/extra_x07.md; spec/TxFees.tla header",
    "technique": "TLA+ spec TxFees.tla; TLC exhaustive MC; TLC-generated behaviours replayed on the real application "
                 "(CheckTx / RecheckTx / Simulate / FinalizeBlock); recorded random histories trace-validated by TLC",
    "text": "TxFees.tla states what a user of x/txfees relies on: registered fee tokens always have an existing pool holding "
            "token and base denomination, list updates entry by entry with removal / replacement and all-or-nothing, only "
            "governance and whitelisted senders change the registry, base denomination fixed, queries answer exactly the "
            "registry; a transaction passes with at most one fee denomination which is base or registered; the mempool floor "
            "ceil(max(consensus, node min, high-gas, arbitrage price) x gas) at the registered pool's current quote (nearest "
            "unit), rechecked after every block, maximum gas; block execution applies the consensus minimum only; fee-less only "
            "at price zero; the fee is paid exactly once by the first signer into the fee collector (base) or the non-native "
            "collector, nothing minted or lost, failed execution still pays, ante refusal pays nothing, check / recheck / "
            "simulation never touch committed state; CalcFeeSpotPrice / ConvertToBaseToken arithmetic.",
    "note": TRUST + " EIP-1559 adaptive base fee, fee grants, explicit fee payers, IBC / ICA size filters, the arbitrage "
            "detector's classification itself, stableswap / concentrated / cosmwasm pools and the epoch-end conversion of "
            "collected fees (X06) are not covered.",
}
BUILD = [("./app/txfees/", "txfees")]
PAR = int(os.environ.get("VERIF_PAR", "0") or 0)

MC_CFG = """SPECIFICATION MCSpec
CONSTANTS
  NAdd <- IAdd
  NSub <- ISub
  NMul <- IMul
  NLe <- ILe
  NFloorDiv <- IFloorDiv
  NZero = 0
  NOne = 1
  PUnit = 2
  Family = "%(fam)s"
  MaxTx = %(tx)d
  MaxReg = %(reg)d
  MaxTrade = %(trade)d
  MaxCommit = %(commit)d
  MaxConv = %(conv)d
  ModesOn = {%(modes)s}
  RegSet = "%(regset)s"
  FeeSet = "%(feeset)s"
  TwoSigners = %(two)s
  HistOn = %(hist)s
VIEW %(view)s
%(inv)s
CHECK_DEADLOCK FALSE
"""
INVS = "RegistrySound NonNegative QueriesDefined"
ACTS = ("BaseFixed RegistryOnlyByAuthority Conserved MempoolViewConserved OnlyDeliveryChangesLedgers RefusedPaysNothing "
        "PassedOneAllowedDenom FeeLessOnlyWhenFree PaidExactlyOnceToTheRightCollector")
PROPS = "INVARIANTS " + INVS + "\nPROPERTIES " + ACTS
ALLMODES = '"check", "recheck", "sim", "deliver"'
ACTIONS = ("MCGov", "MCSetMsg", "MCTrade", "MCDeliver", "MCCheck", "MCRecheck", "MCSim", "MCCommit", "MCConvert")
RE_COV = re.compile(r"^<(MC\w+) line \d+, col \d+ to line \d+, col \d+ of module MCTxFees[^>]*>: (\d+):(\d+)")


def cfg(fam="std", tx=2, reg=1, trade=1, commit=1, conv=0, modes=ALLMODES, regset="few", feeset="all", two=True, hist=False):
    b = lambda x: "TRUE" if x else "FALSE"
    return MC_CFG % dict(fam=fam, tx=tx, reg=reg, trade=trade, commit=commit, conv=conv, modes=modes, regset=regset,
                         feeset=feeset, two=b(two), hist=b(hist), view="GenView" if hist else "View",
                         inv="INVARIANTS Emit" if hist else PROPS)


# ---------------------------------------------------------------------------
# statistics of a recorded trace (non-vacuity), from the logged fields only

def big(b):
    v = 0
    for limb in reversed(b["m"]):
        v = v * 10000 + limb
    return -v if b["s"] < 0 else v


def trace_stats(path):
    c = {}

    def inc(k):
        c[k] = c.get(k, 0) + 1
    cf = st = pools = None
    E18 = 10 ** 18
    for ln in open(path):
        e = json.loads(ln)
        k = e["e"]
        inc(k)
        pre = st
        st = e["st"]
        if "pools" in st:
            pools = {p["id"]: p for p in st["pools"]}
        if k == "cfg":
            cf = e["cf"]
            inc("cfg:base=" + ("uosmo" if st["base"] == "uosmo" else "other"))
            for f in ("min", "arb", "high", "cmin"):
                inc("cfg:%s%s0" % (f, ">" if big(cf[f]) > 0 else "="))
            continue
        reg = {x["d"]: x["p"] for x in pre["reg"]}
        base = pre["base"]
        if k in ("gov", "setmsg"):
            ok = e["ok"]
            inc(k + (":ok" if ok else ":refused"))
            if k == "setmsg":
                inc("setmsg:by-" + ("whitelisted" if e["by"] in cf["setters"] else "stranger"))
            for ft in e["fts"]:
                if ft["p"] == 0:
                    inc("list:removal-of-" + ("registered" if reg.get(ft["d"], 0) else "absent"))
                elif reg.get(ft["d"], 0) not in (0, ft["p"]):
                    inc("list:replacement")
                holds = ft["p"] in pools and ft["d"] in pools[ft["p"]]["denoms"] and base in pools[ft["p"]]["denoms"] and ft["d"] != base
                if ft["p"] != 0 and not holds:
                    inc("list:unregistrable-entry")
                    if reg.get(ft["d"], 0):
                        inc("list:unregistrable-entry-for-registered-token")
            if len(e["fts"]) > 1:
                inc("list:several-entries" + (":ok" if ok else ":refused"))
        elif k == "conv":
            inc("conv:" + ("ok" if e["ok"] else "refused"))
            if e["ok"] and e["coin"]["d"] != base:
                inc("conv:token")
        elif k == "tx":
            t, mode, res = e["tx"], e["mode"], e["res"]
            inc("tx:%s:%s" % (mode, res))
            fee = t["fee"]
            gas = big(t["gas"])
            if len(fee) == 0:
                inc("tx:no-fee:" + ("passed" if res in ("ok", "exec") else "refused"))
            if len(fee) > 1:
                inc("tx:two-denoms")
            if len(fee) == 1:
                d = fee[0]["d"]
                kind = "base" if d == base else "registered" if reg.get(d, 0) else "unregistered"
                inc("tx:fee-in-%s" % kind)
                if res in ("ok", "exec"):
                    inc("tx:%s:passed-with-fee-in-%s" % (mode, kind))
            if len(t["who"]) > 1:
                inc("tx:two-signers")
            if t["sig"] == "bad":
                inc("tx:bad-signature")
            if mode in ("check", "recheck"):
                if gas >= big(cf["hthr"]):
                    inc("tx:check:high-gas")
                if gas > big(cf["maxgas"]):
                    inc("tx:check:above-max-gas")
                if t["arb"]:
                    inc("tx:check:arbitrage-shape")
            if mode == "deliver" and t["arb"]:
                inc("tx:deliver:arbitrage-shape")
            if mode == "deliver" and gas >= big(cf["hthr"]):
                inc("tx:deliver:high-gas")
            # how close to the floor (deliver / check): fractional required amounts and ties
            if mode != "sim" and len(fee) == 1 and (fee[0]["d"] == base or reg.get(fee[0]["d"], 0)):
                p = big(cf["cmin"])
                if mode != "deliver":
                    p = max(p, big(cf["min"]))
                    if gas >= big(cf["hthr"]):
                        p = max(p, big(cf["high"]))
                    if t["arb"]:
                        p = max(p, big(cf["arb"]))
                if p > 0:
                    if (p * gas) % E18:
                        inc("tx:required-amount-is-rounded-up")
                    req = -((-p * gas) // E18)
                    x = big(fee[0]["x"])
                    if fee[0]["d"] == base:
                        worth = Fraction(x)
                    else:
                        qs = [y for y in pools.get(reg[fee[0]["d"]], {"q": []})["q"] if y["d"] == fee[0]["d"]]
                        if not qs:      # a registration the registry should not hold: the validation reports it
                            continue
                        worth = Fraction(x * big(qs[0]["n"]), big(qs[0]["m"]))
                    if worth == req - Fraction(1, 2):
                        inc("tx:tie")
                    if req - 1 <= worth < req + 1:
                        inc("tx:within-one-unit-of-the-floor")
                    if req - Fraction(1, 2) < worth < req and res in ("ok", "exec"):
                        inc("tx:passed-less-than-half-a-unit-short")
    return c


NEED = ("cfg", "cfg:base=uosmo", "cfg:base=other", "cfg:min>0", "cfg:min=0", "cfg:cmin>0", "cfg:cmin=0", "cfg:arb>0", "cfg:high>0",
        "gov:ok", "gov:refused", "setmsg:ok", "setmsg:refused", "setmsg:by-whitelisted", "setmsg:by-stranger",
        "list:removal-of-registered", "list:removal-of-absent", "list:replacement", "list:unregistrable-entry",
        "list:unregistrable-entry-for-registered-token", "list:several-entries:ok", "list:several-entries:refused",
        "trade", "commit", "conv:ok", "conv:refused", "conv:token",
        "tx:deliver:ok", "tx:deliver:ante", "tx:deliver:exec", "tx:check:ok", "tx:check:ante", "tx:recheck:ok", "tx:recheck:ante",
        "tx:sim:ok", "tx:sim:fail", "tx:no-fee:passed", "tx:no-fee:refused", "tx:two-denoms", "tx:fee-in-base", "tx:fee-in-registered",
        "tx:fee-in-unregistered", "tx:deliver:passed-with-fee-in-registered", "tx:check:passed-with-fee-in-registered",
        "tx:deliver:passed-with-fee-in-base", "tx:two-signers", "tx:bad-signature", "tx:check:high-gas", "tx:check:above-max-gas",
        "tx:check:arbitrage-shape", "tx:deliver:arbitrage-shape", "tx:deliver:high-gas", "tx:required-amount-is-rounded-up",
        "tx:within-one-unit-of-the-floor")


def signature_of(v):
    fc = " ".join(v.detail.get("failed_checks") or [])
    m = re.search(r'"CHECK-FAILED", "([^"]+)"', fc)
    if m:
        return "trace:" + re.sub(r"[^A-Za-z0-9]+", "-", m.group(1)).strip("-").lower()[:80]
    if v.detail.get("violated"):
        return "trace:" + v.detail["violated"]
    return "trace:step-not-allowed"


def run(ctx):
    q = ctx.quick
    par = PAR or (4 if q else 12)
    cov = {"samples": []}
    legs = os.environ.get("VERIF_X07_LEGS", "mc,replay,trace").split(",")

    # 1. design: exhaustive model checking of the bounded model
    ctx.leg = "mc"
    states = trans = 0
    cov["mc"] = {}
    mcs = [("std", dict(fam="std", tx=2, feeset="few")),
           ("free", dict(fam="free", tx=2, feeset="few", two=False, trade=0)),
           ("node", dict(fam="node", tx=2, feeset="few")),
           ("cons", dict(fam="cons", tx=2, feeset="few")),
           ("registry", dict(fam="std", tx=1, reg=2, regset="all", commit=0, conv=1, feeset="few"))] if q else \
          [("std", dict(fam="std", tx=2, conv=1)),
           ("std-3tx", dict(fam="std", tx=3, feeset="few", two=False, trade=1, commit=1)),
           ("free", dict(fam="free", tx=2)),
           ("node", dict(fam="node", tx=3, feeset="few")),
           ("cons", dict(fam="cons", tx=3, feeset="few")),
           ("registry", dict(fam="std", tx=1, reg=3, regset="all", commit=0, conv=1, feeset="few", modes='"deliver", "check"'))]
    if "mc" not in legs:
        mcs = []
    for name, kw in mcs:
        r = vlib.tlc("MCTxFees.tla", "mc.cfg", workers=par, timeout=3000, heap="8g", tag="X07-mc", cfg_text=cfg(**kw))
        vlib.tlc_must_pass(r, "MCTxFees " + name)
        states += r.distinct
        trans += r.generated
        cov["mc"][name] = {"distinct": r.distinct, "generated": r.generated, "depth": r.depth, "wall_s": round(r.wall, 1)}
        log("MC %s: %d distinct / %d generated, depth %d, %.0fs" % (name, r.distinct, r.generated, r.depth, r.wall))
    if "mc" in legs:
        # non-vacuity of the model: every action is taken (on a sub-model: collecting coverage slows TLC)
        r = vlib.tlc("MCTxFees.tla", "cov.cfg", workers=2, timeout=900, heap="4g", tag="X07-cov", keep=True,
                     cfg_text=cfg(fam="std", tx=1, reg=1, trade=1, commit=1, conv=1, feeset="few"), extra=["-coverage", "1000"])
        vlib.tlc_must_pass(r, "MCTxFees coverage")
        taken = {}
        for ln in open(r.out, errors="replace"):
            m = RE_COV.match(ln)
            if m:
                taken[m.group(1)] = max(taken.get(m.group(1), 0), int(m.group(3)))
        shutil.rmtree(os.path.dirname(r.out), ignore_errors=True)
        for a in ACTIONS:
            if taken.get(a, 0) == 0:
                raise Infra("MCTxFees: action %s was never taken (model is vacuous)" % a)
        cov["mc_action_counts"] = taken
    cov["mc_states"], cov["mc_transitions"] = states, trans

    binary = vlib.build_test("./app/txfees/", "txfees")

    # 2. spec -> impl: one behaviour per distinct (state, refusal shape), replayed on the real application
    ctx.leg = "replay"
    gens = [("registry", dict(fam="std", tx=0, reg=2, regset="all", trade=0, commit=0, conv=1)),
            ("std", dict(fam="std", tx=1, feeset="few")),
            ("std-mempool", dict(fam="std", tx=2, trade=0, feeset="few", two=False, modes='"check", "recheck"')),
            ("std-blocks", dict(fam="std", tx=2, trade=0, commit=0, feeset="few", two=False, modes='"deliver"')),
            ("free", dict(fam="free", tx=1, trade=0, feeset="few", two=False)),
            ("node", dict(fam="node", tx=1, trade=0, feeset="few", two=False)),
            ("cons", dict(fam="cons", tx=1, trade=0, feeset="few", two=False))] if q else \
           [("registry", dict(fam="std", tx=1, reg=2, regset="all", trade=0, commit=0, conv=1, feeset="few", modes='"deliver", "check"')),
            ("std", dict(fam="std", tx=2, feeset="few")),
            ("std-allfees", dict(fam="std", tx=1, conv=1)),
            ("free", dict(fam="free", tx=2, trade=0, feeset="few", two=False)),
            ("node", dict(fam="node", tx=2, feeset="few", two=False)),
            ("cons", dict(fam="cons", tx=2, feeset="few", two=False))]
    if "replay" not in legs:
        gens = []
    replayed = steps = 0
    kinds = {}
    cov["replay"] = {}
    for name, kw in gens:
        r = vlib.tlc("MCTxFees.tla", "gen.cfg", workers=par, timeout=3000, heap="8g", tag="X07-gen", keep=True,
                     cfg_text=cfg(hist=True, **kw))
        vlib.tlc_must_pass(r, "MCTxFees gen " + name)
        d = os.path.dirname(r.out)
        gen = os.path.join(d, "gen.jsonl")
        n = vlib.extract_gen(r.out, gen)
        os.remove(r.out)
        if n == 0:
            raise Infra("generator %s produced no behaviours" % name)
        # an application cannot be released (its stores' pruning goroutines keep the in-memory database alive), so the
        # memory of a replay process grows with the blocks it ran: many short-lived processes, `par` at a time
        nsh = max(par, -(-n // 1500))

        def shard(i):
            vlib.run_test(binary, "TestReplay", {"VERIF_IN": gen, "VERIF_OUT": gen + ".result%d" % i,
                                                 "VERIF_SHARD": "%d/%d" % (i, nsh)}, timeout=3000)
            return json.load(open(gen + ".result%d" % i))
        t1 = time.time()
        with concurrent.futures.ThreadPoolExecutor(max_workers=par) as ex:
            parts = list(ex.map(shard, range(nsh)))
        mm = [m for p in parts for m in (p.get("mismatches") or [])]
        nb = sum(p["behaviours"] for p in parts)
        ns = sum(p["steps"] for p in parts)
        replayed += nb
        steps += ns
        for p in parts:
            for k, v in p["kinds"].items():
                kinds[k] = kinds.get(k, 0) + v
        cov["replay"][name] = {"behaviours": nb, "calls": ns, "blocks": sum(p["blocks"] for p in parts), "model_distinct": r.distinct,
                               "wall_s": round(time.time() - t1, 1)}
        if len(cov["samples"]) < 2:
            with open(gen) as f:
                for ln in f:
                    b = json.loads(ln)
                    if len(b["steps"]) >= 2 and b["steps"][-1]["e"] == "tx":
                        for s in b["steps"]:
                            s.pop("st")
                        cov["samples"].append({"spec_behaviour": {"family": b["family"], "steps": b["steps"]}})
                        break
        log("replayed %d spec behaviours (%d calls) of %s on the real application: %d mismatches (%.0fs)"
            % (nb, ns, name, len(mm), time.time() - t1))
        if mm:
            m = sorted(mm, key=lambda x: (x["behaviour"], x["step"]))[0]
            with open(gen) as f:
                beh = [ln for i, ln in enumerate(f) if i == m["behaviour"]][0]
            b = json.loads(beh)
            for s in b["steps"][:m["step"]]:
                s.pop("st", None)
            b.pop("bal0", None)
            raise Violation(PROP, "real code deviates from the specification on a generated behaviour (family %s), call %d (%s): %s "
                            "(want %s, got %s)" % (b["family"], m["step"], b["steps"][m["step"]]["e"], m["what"],
                                                   json.dumps(m["want"])[:300], json.dumps(m["got"])[:300]),
                            {"mismatch": m, "behaviour": b}, "replay:" + re.sub(r"\d+", "N", m["what"].split(" (")[0]))
        shutil.rmtree(d, ignore_errors=True)
        states += r.distinct
        trans += r.generated
    if gens:
        for need in ("gov:true", "gov:false", "setmsg:true", "setmsg:false", "trade", "commit", "conv:true", "conv:false",
                     "tx:deliver:ok", "tx:deliver:ante", "tx:deliver:exec", "tx:check:ok", "tx:check:ante", "tx:recheck:ok",
                     "tx:sim:ok", "tx:sim:fail"):
            if kinds.get(need, 0) == 0:
                raise Infra("replay executed no %s call" % need)

    if "trace" in legs:
        # 3. impl -> spec: recorded random histories validated line by line
        ctx.leg = "trace"
        nh, nops = (64, 90) if q else (960, 120)
        ctx.params = {"histories": nh, "ops": nops}
        d = vlib.scratch("X07-rec")
        trace = os.path.join(d, "txfees.ndjson")
        nrec = 1 if q else 4      # (an application per history: several recorder processes keep each one small)

        def rec(i):
            vlib.run_test(binary, "TestRecord", {"VERIF_OUT": "%s.%d" % (trace, i), "VERIF_SEED": ctx.seed, "VERIF_HISTORIES": nh,
                                                 "VERIF_OPS": nops, "VERIF_SHARD": "%d/%d" % (i, nrec)}, timeout=3000)
        with concurrent.futures.ThreadPoolExecutor(max_workers=nrec) as ex:
            list(ex.map(rec, range(nrec)))
        with open(trace, "w") as out:
            for i in range(nrec):
                with open("%s.%d" % (trace, i)) as f:
                    shutil.copyfileobj(f, out)
                os.remove("%s.%d" % (trace, i))
        with open(trace) as f:
            for i, ln in enumerate(f):
                e = json.loads(ln)
                if e["e"] == "tx" and e["res"] == "ok" and e["tx"]["fee"] and e["tx"]["fee"][0]["d"].startswith("uf") and len(cov["samples"]) < 4:
                    e.pop("st")
                    e.pop("q")
                    cov["samples"].append({"trace_event": e})
                if i > 400:
                    break
        try:
            gen_, dist_, nlines = vlib.validate_trace(PROP, "TraceTxFees.tla", "TraceTxFees.cfg", trace, parallel=par, timeout=3000)
        except Violation as v:
            v.signature = signature_of(v)
            raise
        ks = trace_stats(trace)
        log("validated %d recorded events of %d histories against TraceTxFees: %d transactions (%d delivered: %d passed the ante "
            "phase; %d CheckTx, %d RecheckTx), %d registry updates, %d trades"
            % (nlines, nh, ks.get("tx", 0), sum(ks.get("tx:deliver:" + r, 0) for r in ("ok", "ante", "exec")),
               ks.get("tx:deliver:ok", 0) + ks.get("tx:deliver:exec", 0), ks.get("tx:check:ok", 0) + ks.get("tx:check:ante", 0),
               ks.get("tx:recheck:ok", 0) + ks.get("tx:recheck:ante", 0), ks.get("gov", 0) + ks.get("setmsg", 0), ks.get("trade", 0)))
        # non-vacuity (after the validation, so that a deviation that also starves an event kind is reported as what it is)
        for need in NEED:
            if ks.get(need, 0) == 0:
                raise Infra("recorder produced no %s events: driver is not exercising the property" % need)
        cov.update({"recorded_histories": nh, "recorded_events": nlines, "event_kinds": ks})
        states += dist_
        trans += gen_
        shutil.rmtree(d, ignore_errors=True)
    cov.update({"states": states, "transitions": trans,
                "traces_validated_against_impl": cov.get("recorded_histories", 0) + replayed,
                "spec_behaviours_replayed": replayed, "calls_replayed": steps, "replayed_call_kinds": kinds,
                "checker_cmd": "bin/check X07 --tier " + ctx.tier})
    cov["known_finding_hits"] = dict(ctx.known_hit)
    vlib.write_evidence(PROP, ctx.tier, ctx.seed, "model_checking", cov, time.time() - ctx.t0,
                        ["TLC evaluator; Json/IOUtils community modules; BigNum java override",
                         "harness: one application per recorded history / per price family, built with its own node options "
                         "(min gas prices, arbitrage and high-gas price, maximum gas; adaptive 1559 fee switched off) and with "
                         "types.ConsensusMinFee set to the history's consensus minimum; real signed transactions (first signer pays) "
                         "through BaseApp.CheckTx (new / recheck of what sits in the application's mempool), BaseApp.Simulate and "
                         "FinalizeBlock(one transaction) + Commit; the outcome class of a delivered transaction is read from the "
                         "result (code 0 / ante events present / absent)",
                         "governance updates run the registered proposal handler on a branch written only on success, as the "
                         "governance end blocker does; MsgSetFeeTokens runs through the message router; each is followed by a block",
                         "projection: registry as stored; bank balances of the signers, fee collector + distribution module (the "
                         "latter sweeps the former at block begin), non-native fee collector, and supply minus those, in the "
                         "committed state and in the check state; pools' quotes as answered by the pool manager",
                         "block times advance by a millisecond: no epoch ends inside a history (X06 starts there)"])


def evidence_on_violation(ctx, v):
    vlib.write_evidence(PROP, ctx.tier, ctx.seed, "model_checking",
                        {"evaluations": 1, "distinct_nontrivial": 2, "samples": [v.what],
                         "explanation": "violation found in leg " + str(ctx.leg)}, time.time() - ctx.t0, [], 1)
