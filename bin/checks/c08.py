"""C08 - spread rewards and incentives reach exactly the liquidity that earned them.
Specs: spec/CLRewards.tla (the accrual mechanism: global growth, growth-outside snapshots flipped
on crossing, per-position inside snapshots; ghost `earned`), spec/trace/TraceCLRewards.tla
(recorded histories: exact per-bucket accrual oracle from the curve walker, uptime / forfeit rules,
incentive accounting)."""
import json, os, time
import vlib, checks.clcommon as clc
from vlib import Infra, Violation, log

MANIFEST = {
    "engine": "tlc+go-harness", "design_ref": "DESIGN.md section 4 (C08)",
    "technique": "TLA+ mechanism model CLRewards.tla (growth-outside flipping) model-checked exhaustively with claimable = earned; recorded histories validated by TLC against an exact-rational accrual oracle built on the curve walker",
    "text": "Design level: CLRewards.tla adds the accumulator mechanism to CL.tla; TLC proves claimable + paid = earned (sum of growth x liquidity while in range) for every interleaving of creates (before/after crossings, every tick/price relation), accruals, crossings both ways, claims, partial and full withdrawals on a bounded grid, and that closed positions were paid exactly what they earned. Code level: for every executed swap of recorded histories the exact curve walker yields fee and active liquidity per bucket; ghost E[id] accumulates fee*liq_id/liq_active; after every operation claimable + collected of every position (open or closed) must lie in [E(1-1e-12) - D - 2n - 2, E(1+1e-12) + 2n + 2] with D the accumulated truncation of per-unit growth (liq x accumulator ulp, both sides of the scaling migration) and n the touching events, and equal 0 when E = 0 (never in range). Incentives: each incentive denom is bound to one uptime per history; positions younger than it can claim/collect none of it, never-in-range positions have none, and incentive account - (claimable + forfeitable + undistributed) stays within accumulated truncation dust (this found that MsgCollectIncentives dropped forfeited incentives; fixed).",
    "note": "Trusted: TLC, BigNum override, the curve walker (its laws are model-checked in C03), harness projection. Twins and k-multiples follow from the per-position bounds (E is proportional to liquidity); drivers create positions on shared ranges.",
}
BUILD = clc.BUILD

MC_CFG = """SPECIFICATION MCSpec
CONSTANTS
  NZero = 0
  NAdd <- IntAdd
  NSub <- IntSub
  NLe <- IntLe
  MinT <- MinTVal
  MaxT = %(maxt)d
  Liqs = {1, 2}
  MaxPos = 2
  MaxId = %(maxid)d
  Grow = {1}
  MaxG = %(maxg)d
INVARIANTS ExactlyEarned ClosedPaid NonNegative InvLiq InvTicks
CHECK_DEADLOCK FALSE
"""


def run(ctx):
    q = ctx.quick
    ctx.leg = "mc"
    b = dict(maxt=1, maxid=3, maxg=2) if q else dict(maxt=2, maxid=3, maxg=3)
    r = vlib.tlc("MCCLRewards.tla", "mc.cfg", workers=vlib.NCPU, timeout=3000, heap="12g", tag="C08-mc", cfg_text=MC_CFG % b)
    vlib.tlc_must_pass(r, "MCCLRewards")
    log("MC mechanism: %d distinct / %d generated states, depth %d, %.0fs" % (r.distinct, r.generated, r.depth, r.wall))
    ctx.leg = "trace"
    nh, nops = (24, 100) if q else (320, 160)
    ctx.params = {"histories": nh, "ops": nops}
    trace = clc.record(ctx, "C08", nh, nops)
    kinds, samples, n = clc.summarise(trace)
    clc.need(kinds, ["swap:ok", "collectFee:ok", "collectInc:ok", "incentive:ok", "time:ok", "add:ok", "withdraw:ok",
                     "transfer:ok", "swap:crossing-initialised-ticks"])
    gen, dist, nlines = vlib.validate_trace("C08", "TraceCLRewards.tla", "TraceCLRewards.cfg", trace, timeout=3000)
    log("validated %d recorded events of %d histories against the accrual oracle" % (nlines, nh))
    vlib.write_evidence("C08", ctx.tier, ctx.seed, "model_checking", {
        "states": r.distinct + dist, "transitions": r.generated + gen, "traces_validated_against_impl": nh,
        "mc_states": r.distinct, "recorded_events": nlines, "event_kinds": kinds, "samples": samples,
        "checker_cmd": "bin/check C08 --tier " + ctx.tier}, time.time() - ctx.t0,
        ["TLC; BigNum java override; curve walker of C03", "harness projection (claimable queries, reward accounts)",
         "tolerances: relative 1e-12, 2 units per touching event, liq x accumulator ulp per accrual step"])


def evidence_on_violation(ctx, v):
    vlib.write_evidence("C08", ctx.tier, ctx.seed, "model_checking",
                        {"evaluations": 1, "distinct_nontrivial": 2, "samples": [v.what]}, time.time() - ctx.t0, [], 1)
