"""C08 - spread rewards and incentives reach exactly the liquidity that earned them.
Specs: spec/CLRewards.tla (the accrual mechanism: global growth, growth-outside snapshots flipped
on crossing, per-position inside snapshots; ghost `earned`), spec/trace/TraceCLRewards.tla
(recorded histories: exact per-bucket accrual oracle for spread rewards from the curve walker; exact
ideal-accrual oracle for incentives - per record emission over time, pro-rata crediting of the in-range
liquidity, forfeit re-distribution - compared two-sidedly with derived dust; uptime / forfeit rules,
incentive accounting)."""
import concurrent.futures, json, os, time
import vlib, checks.clcommon as clc
from vlib import Infra, Violation, log

MANIFEST = {
    "engine": "tlc+go-harness", "design_ref": "DESIGN.md section 4 (C08)",
    "technique": "TLA+ mechanism model CLRewards.tla (growth-outside flipping) model-checked exhaustively with claimable = earned; recorded histories validated by TLC against exact-rational accrual oracles: spread rewards from the curve walker, incentives from per-record emission over time credited pro rata to the in-range liquidity",
    "text": "Design level: CLRewards.tla adds the accumulator mechanism to CL.tla; TLC proves claimable + paid = earned (sum of growth x liquidity while in range) for every interleaving of creates (before/after crossings, every tick/price relation), accruals, crossings both ways, claims, partial and full withdrawals on a bounded grid, and that closed positions were paid exactly what they earned. Code level, spread rewards: for every executed swap of recorded histories the exact curve walker yields fee and active liquidity per bucket; ghost E[id] accumulates fee*liq_id/liq_active; after every operation claimable + collected of every position (open or closed) must lie in [E(1-1e-12) - D - 2n - 2, E(1+1e-12) + 2n + 2] with D the accumulated truncation of per-unit growth (liq x accumulator ulp, both sides of the scaling migration) and n the touching events, and equal 0 when E = 0 (never in range). Code level, incentives (exact ideal-accrual oracle, rationals over BigNum): between two logged events the pool is constant, so over every interval [prev.t, t] each live incentive record (denom, rate, start, ideal remainder taken from the CreateIncentive call) emits min(rate x overlap of the interval with [start, inf), remainder) if the active liquidity is >= 1 (otherwise nothing is emitted and the record keeps its remainder) and every position in range ideally accrues emitted x liq / active liquidity (ghost ia[id][denom]); a position younger than the denom's uptime that collects, is withdrawn from or added to forfeits what it ideally accrued since its last settlement, which is ideally re-distributed pro rata over the liquidity active after the operation (paid to the owner only if none is). After every operation, for every position (open or closed) and incentive denom: claimable + forfeitable + everything that ever left the position must lie in [ia - dust, ia + u]; dust is derived from the code's truncations: (liq x accumulator ulp + 1e-18) per live record at every persisted accumulator update while in range and once more for the pending update of the claimable query, 1 token per settlement and 1 for the query, and per re-distribution received liq x ulp plus the forfeiting position's own dust x liq/L'; u is 1e-18 per record and update (truncated rate x elapsed defers emission). ia = 0 => exactly nothing; positions with the same range and join time whose ideal accruals are proportional to liquidity have proportional real ones (identical to the unit for equal liquidity before any settlement); a settlement pays the owner exactly what was claimable, unmatured amounts only when no other liquidity is active; incentive account = deposited - paid and claimable + forfeitable + paid + undistributed <= deposited. Each incentive denom is bound to one uptime per history; positions younger than it can claim/collect none of it, never-in-range positions have none, and incentive account - (claimable + forfeitable + undistributed) stays within accumulated truncation dust (this found that MsgCollectIncentives dropped forfeited incentives; fixed). The histories are validated with the emission rule of the property (TraceCLRewards.cfg, StartClip = TRUE); if a requirement of the incentive oracle is rejected, everything is validated again with the one rule the code is known to deviate by (TraceCLRewardsKnown.cfg; finding 'incentive:emits-for-time-before-start': the first accumulator update after a record's start time emits for the whole time since the previous update, never for time before the record was created): whatever is rejected under that rule too is a violation, otherwise the known deviation is reported as that finding. Non-vacuity: the run is undecided unless the histories contain incentives created after time passed without a liquidity update followed by a joiner, future starts, several records per denom with different starts, exhausted records, intervals without active liquidity, sub-second intervals, young positions forfeiting by collect / withdraw / add with and without other active liquidity, accruing twins and k-multiples. Every second history has a second pool in which every user holds a position outside the history, listed last in every MsgCollectIncentives (what happens to a position must not depend on what else a message lists); every fifth history runs with a governance-authorised spread factor of 0.5 .. 0.95 (the dust allowance is counted in units of 1 + floor(f/(1-f))).",
    "note": "Trusted: TLC, BigNum override, the curve walker (its laws are model-checked in C03), harness projection. Calibration of the incentive dust on the unchanged tree (seeds 1-5 quick: 4.1e5 judgements, one thorough run: 2.8e6): real never exceeded ideal; worst slack/dust 0.999 where whole-token truncation dominates (999 of 1000 paid), 0.73 (quick) / 0.96 (thorough) where the accumulator ulp dominates - the bound is the worst case of the code's truncations with no safety factor on top.",
}
BUILD = clc.BUILD

MC_CFG = """SPECIFICATION MCSpec
CONSTANTS
  NZero = 0
  NAdd <- IntAdd
  NSub <- IntSub
  NLe <- IntLe
  MinT <- MinTVal
  MaxT = %(maxt)d
  Liqs = {1, 2}
  MaxPos = 2
  MaxId = %(maxid)d
  Grow = {1}
  MaxG = %(maxg)d
INVARIANTS ExactlyEarned ClosedPaid NonNegative InvLiq InvTicks
CHECK_DEADLOCK FALSE
"""

SIG_START = "incentive:emits-for-time-before-start"
WHAT_START = ("an incentive record whose start time lies between two accumulator updates emits, at the first update after "
              "its start, rate x (whole time since the previous update) instead of rate x (time since its start): the liquidity "
              "in range before the start is paid for time in which the incentive was not running and the record runs out early")
# the requirements of TraceCLRewards that involve the ideal incentive accrual (the only ones StartClip can change)
ORACLE_CHECKS = ("incentives within [accrued - dust, accrued + dust]", "incentives never accrued => exactly zero",
                 "incentive twins equal, k-multiples proportional")


def big(b):
    v = 0
    for x in reversed(b["m"]):
        v = v * 10000 + x
    return v * b["s"]


def scan_incentives(trace):
    """Non-vacuity counters for the incentive oracle (what the recorded histories exercise; no judgement)."""
    c = {k: 0 for k in ("incentive:created-after-idle-time", "incentive:late-then-joiner", "incentive:future-start",
                        "incentive:records-same-denom-different-start", "incentive:record-exhausted",
                        "incentive:interval-without-active-liquidity", "incentive:interval-emitting",
                        "incentive:interval-not-whole-seconds",
                        "forfeit:collect-while-active", "forfeit:withdraw-while-active", "forfeit:add-while-active",
                        "forfeit:while-no-liquidity-active", "twins:accruing", "multiples:accruing", "positions:never-accrued-open")}
    E18 = 10 ** 18
    prev, late_at = None, None
    for ln in open(trace):
        e = json.loads(ln)
        if e["e"] != "op":
            prev, late_at = e["st"], None
            continue
        st = e["st"]
        inr = lambda s, p: p["lo"] <= s["tick"] < p["hi"]
        if e["op"] == "incentive" and e["ok"]:
            if e["args"]["start"] > st["t"]:
                c["incentive:future-start"] += 1
            if prev["lastUp"] < st["t"] and big(prev["liq"]) >= E18 and e["args"]["start"] == st["t"]:
                c["incentive:created-after-idle-time"] += 1
                late_at = st["t"]
        if e["op"] == "create" and e["ok"] and late_at is not None and 0 < st["t"] - late_at <= 5000:
            if any(p["id"] == e["res"]["id"] and inr(st, p) for p in st["pos"]):
                c["incentive:late-then-joiner"] += 1
            late_at = None
        for d in (2, 3):
            if len({r["start"] for r in st["recs"] if r["denom"] == d}) > 1:
                c["incentive:records-same-denom-different-start"] += 1
                break
        gone = {r["id"] for r in prev["recs"]} - {r["id"] for r in st["recs"]}
        c["incentive:record-exhausted"] += len(gone)
        if st["t"] > prev["t"] and any(r["start"] < st["t"] for r in prev["recs"]):
            c["incentive:interval-emitting" if big(prev["liq"]) >= E18 else "incentive:interval-without-active-liquidity"] += 1
            if (st["t"] - prev["t"]) % 1000:
                c["incentive:interval-not-whole-seconds"] += 1
        if e["ok"] and e["op"] in ("collectInc", "withdraw", "add"):
            pp = [p for p in prev["pos"] if p["id"] == e["args"]["id"]][0]
            if any(big(pp["forf"][d]) > 0 for d in (2, 3)):
                recv = [p for p in st["pos"] if inr(st, p) and not (e["op"] == "add" and p["id"] == e["res"]["id"])]
                if sum(big(p["liq"]) for p in recv) >= E18:
                    c["forfeit:%s-while-active" % {"collectInc": "collect"}.get(e["op"], e["op"])] += 1
                else:
                    c["forfeit:while-no-liquidity-active"] += 1
        if e["op"] == "time":
            ps = st["pos"]
            for i in range(len(ps)):
                for j in range(i + 1, len(ps)):
                    p, q = ps[i], ps[j]
                    if (p["lo"], p["hi"], p["join"]) == (q["lo"], q["hi"], q["join"]) and \
                            any(big(p["inc"][d]) + big(p["forf"][d]) > 0 for d in (2, 3)):
                        c["twins:accruing" if p["liq"] == q["liq"] else "multiples:accruing"] += 1
            c["positions:never-accrued-open"] += sum(1 for p in ps if not inr(st, p) and all(big(p["inc"][d]) + big(p["forf"][d]) == 0 for d in (2, 3)))
        prev = st
    return c


def validate(prop, cfg, trace_path, timeout, parallel=None):
    """vlib.validate_trace plus the INC-STATS lines the trace specification prints per history."""
    parallel = parallel or int(os.environ.get("VERIF_PARALLEL") or min(vlib.NCPU, 16))      # VERIF_PARALLEL: development aid
    chunks = vlib.split_histories(trace_path, parallel)
    main = "TraceCLRewards.tla"

    def one(ch):
        return ch, vlib.tlc(main, cfg, workers=1, timeout=timeout, env={"TRACE_FILE": ch[0]}, heap="3g", tag=prop + "-trace")

    with concurrent.futures.ThreadPoolExecutor(max_workers=parallel) as ex:
        results = list(ex.map(one, chunks))
    gen = dist = nlines = 0
    stats = []
    for (p, first, n), r in results:
        if r.error:
            raise Infra("trace validation %s %s: %s" % (main, cfg, r.error))
        gen, dist, nlines = gen + r.generated, dist + r.distinct, nlines + n
        for pl in r.prints:
            if pl.startswith('<<"INC-STATS", "'):
                stats.append(json.loads(json.loads('"' + pl[len('<<"INC-STATS", "'):-3] + '"')))
        if not r.ok:
            if r.rejected_line is not None and not r.violated:
                ln, what = r.rejected_line, "recorded step is not a step of the specification"
            else:
                ln, what = (r.last_l if r.last_l else r.depth), "property %s is false in a recorded state" % r.violated
            lines = open(p).read().split("\n")
            hstart = ln - 1
            while hstart > 0 and '"e":"cfg"' not in lines[hstart]:
                hstart -= 1
            detail = {"spec": main, "cfg": cfg, "chunk_line": ln, "trace_line": first + ln - 1, "reason": what,
                      "violated": r.violated, "failed_checks": r.failed_checks[-3:],
                      "oracle_rows": [x for x in r.prints if "INC-BOUNDS" in x or "FEE-BOUNDS" in x][-3:],
                      "offending_event": lines[ln - 1] if 0 < ln <= len(lines) else None,
                      "history_cfg": lines[hstart][:600], "history_prefix": lines[hstart:ln][-400:], "tlc_output": r.out}
            if r.failed_checks and not r.violated:
                what += ": " + r.failed_checks[-1]
            raise Violation(prop, what + (" (%s)" % r.violated if r.violated else ""), detail)
    for p, _, _ in chunks:
        try:
            os.remove(p)
        except OSError:
            pass
    tot = {}
    for s in stats:
        for k, v in s.items():
            tot[k] = max(tot.get(k, 0), v) if k.startswith("worst") else tot.get(k, 0) + v
    return gen, dist, nlines, tot


def run(ctx):
    q = ctx.quick
    ctx.leg = "mc"
    b = dict(maxt=1, maxid=3, maxg=2) if q else dict(maxt=2, maxid=3, maxg=3)
    r = vlib.tlc("MCCLRewards.tla", "mc.cfg", workers=vlib.NCPU, timeout=3000, heap="12g", tag="C08-mc", cfg_text=MC_CFG % b)
    vlib.tlc_must_pass(r, "MCCLRewards")
    log("MC mechanism: %d distinct / %d generated states, depth %d, %.0fs" % (r.distinct, r.generated, r.depth, r.wall))
    ctx.leg = "trace"
    nh, nops = (24, 100) if q else (200, 160)
    ctx.params = {"histories": nh, "ops": nops}
    trace = clc.record(ctx, "C08", nh, nops)
    kinds, samples, n = clc.summarise(trace)
    clc.need(kinds, ["swap:ok", "collectFee:ok", "collectInc:ok", "incentive:ok", "time:ok", "add:ok", "withdraw:ok",
                     "transfer:ok", "swap:crossing-initialised-ticks"])
    inc = scan_incentives(trace)
    # 1. the property: a record emits from its start time on (StartClip = TRUE)
    t1 = time.time()
    deviation = None
    try:
        gen, dist, nlines, st = validate("C08", "TraceCLRewards.cfg", trace, 3000)
    except Violation as v:
        if not any(name in " ".join(v.detail.get("failed_checks") or []) for name in ORACLE_CHECKS):
            raise
        deviation = v
        for p in [p for p in os.listdir(os.path.dirname(trace)) if ".part" in p]:
            os.remove(os.path.join(os.path.dirname(trace), p))
    if deviation is not None:
        # 2. the ideal accrual was missed somewhere.  Validate everything again with the one emission rule the code is
        # known to deviate by (SIG_START: the first update after a record's start emits for the whole time since the
        # previous update, never for time before the record was created).  Whatever is rejected under that rule too is a
        # violation of its own; if nothing is, the known deviation is the explanation and is reported as that finding.
        log("ideal incentive accrual missed (%s; trace line %s): re-validating with the known emission rule"
            % ((deviation.detail.get("failed_checks") or ["?"])[-1], deviation.detail.get("trace_line")))
        gen, dist, nlines, st = validate("C08", "TraceCLRewardsKnown.cfg", trace, 3000)
        if st.get("beforeStart", 0) == 0:
            raise deviation      # cannot happen: without such an emission both rules are the same formula
        rows = deviation.detail.get("oracle_rows") or []
        ctx.finding(SIG_START, WHAT_START + " (%d such emissions in this run; first rejected: trace line %s, %s)"
                    % (st["beforeStart"], deviation.detail.get("trace_line"), rows[-1][:300] if rows else deviation.what),
                    dict(deviation.detail, leg="trace", emissions_before_start=st["beforeStart"]))
    # non-vacuity (after the validation: a tree that is rejected is a violation whatever it left unexercised)
    clc.need(inc, sorted(inc))
    for k in ("intervals", "accruals", "records", "settlements", "redistributions", "forfeitsPaidIdle", "judged"):
        if st.get(k, 0) == 0:
            raise Infra("the incentive oracle judged no %s: the driver does not exercise the property" % k)
    log("validated %d recorded events of %d histories against the accrual oracles (%.0fs); incentives: %d intervals, %d record "
        "emissions of %d records, %d settlements, %d forfeits re-distributed, %d paid with no liquidity active, %d (position, denom) "
        "judgements; worst slack/dust %.3f (%.3f where dust >= 10 tokens), worst slack %.3f tokens"
        % (nlines, nh, time.time() - t1, st["intervals"], st["accruals"], st["records"], st["settlements"], st["redistributions"],
           st["forfeitsPaidIdle"], st["judged"], st["worstMilli"] / 1000, st["worstBigMilli"] / 1000, st["worstAbsMilli"] / 1000))
    vlib.write_evidence("C08", ctx.tier, ctx.seed, "model_checking", {
        "states": r.distinct + dist, "transitions": r.generated + gen, "traces_validated_against_impl": nh,
        "mc_states": r.distinct, "recorded_events": nlines, "event_kinds": kinds, "samples": samples,
        "incentive_oracle": st, "incentive_histories_exercise": inc, "known_finding_hits": dict(ctx.known_hit),
        "incentive_dust_calibration": {"worst_slack_over_dust": st["worstMilli"] / 1000,
                                       "worst_slack_over_dust_where_dust_ge_10": st["worstBigMilli"] / 1000,
                                       "worst_slack_tokens": st["worstAbsMilli"] / 1000, "real_above_ideal": "never (upper allowance 1e-18 per record and update)"},
        "checker_cmd": "bin/check C08 --tier " + ctx.tier}, time.time() - ctx.t0,
        ["TLC; BigNum java override; curve walker of C03", "harness projection (claimable queries, reward accounts, user balances)",
         "spread rewards: relative 1e-12, 2 units per touching event, liq x accumulator ulp per accrual step",
         "incentives: dust = (liq x ulp + 1e-18) per live record and accumulator update + 1 per settlement/query + re-distribution share of the forfeiter's dust"])


def evidence_on_violation(ctx, v):
    vlib.write_evidence("C08", ctx.tier, ctx.seed, "model_checking",
                        {"evaluations": 1, "distinct_nontrivial": 2, "samples": [v.what]}, time.time() - ctx.t0, [], 1)
