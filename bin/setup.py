"""bin/check setup: build the framework from files on disk only (MANIFEST.setup_cmd)."""
import glob, os, subprocess, sys, time
import vlib
from vlib import log

import importlib


def build_list():
    res = []
    for f in sorted(glob.glob(os.path.join(vlib.ROOT, "bin", "checks", "c[0-9]*.py"))):
        mod = importlib.import_module("checks." + os.path.basename(f)[:-3])
        for b in getattr(mod, "BUILD", []):
            if b not in res:
                res.append(b)
    return res


def main():
    t0 = time.time()
    try:
        vlib.build_java()
        vlib.ensure_harness()
        r = vlib.tlc("MCBigNum.tla", "MCBigNum.cfg", workers=1, timeout=900, tag="setup-bignum")
        if not r.ok:
            print("setup: BigNum self-check failed: %s %s (see %s)" % (r.error, r.violated, r.out))
            return 2
        log("BigNum: pure TLA+ definitions == native ints; java override == pure definitions (%.0fs)" % r.wall)
        for pkg, name in build_list():
            if os.path.isdir(os.path.join(vlib.HARNESS, pkg)):
                vlib.build_test(pkg, name)
    except vlib.Infra as e:
        print("setup failed:", e)
        return 2
    log("setup done in %.0fs" % (time.time() - t0))
    return 0
